#!/venv/bin/python
"""Confirm a sub-agent's breaking change in a scratch worktree of /repo and file it under seeded/<id>/.
usage: tools_seed.py <property> [<source dir>=/tmp/seed-<property>/_seed] [<name>]"""
import json
import os
import shutil
import subprocess
import sys

HERE = os.path.dirname(os.path.abspath(__file__))


def sh(cmd, cwd, env=None, timeout=600):
    r = subprocess.run(cmd, cwd=cwd, shell=True, capture_output=True, text=True, env=env, timeout=timeout)
    return r.returncode, (r.stdout + r.stderr)


def main():
    pid = sys.argv[1]
    src = sys.argv[2] if len(sys.argv) > 2 else '/tmp/seed-%s/_seed' % pid
    name = sys.argv[3] if len(sys.argv) > 3 else '%s-a' % pid
    wt = '/dev/shm/seedconfirm-%s' % name
    shutil.rmtree(wt, ignore_errors=True)
    subprocess.check_call(['git', '-C', '/repo', 'worktree', 'add', '-q', '--detach', wt, 'HEAD'])
    try:
        env = dict(os.environ, PYTHONPATH=os.path.join(wt, 'src'), PYTHONDONTWRITEBYTECODE='1')
        demo = 'demo.py' if os.path.exists(os.path.join(src, 'demo.py')) else 'demo.sh'
        os.makedirs(os.path.join(wt, '_seed'))
        for f in os.listdir(src):
            if os.path.isfile(os.path.join(src, f)):
                shutil.copy(os.path.join(src, f), os.path.join(wt, '_seed', f))
        run_demo = ('/venv/bin/python _seed/demo.py' if demo == 'demo.py' else 'sh _seed/demo.sh')
        rc0, out0 = sh(run_demo, wt, env)
        rc, out = sh('git apply --whitespace=nowarn _seed/patch.diff', wt)
        if rc != 0:
            print('PATCH DOES NOT APPLY to /repo HEAD:\n' + out)
            return 1
        rct, outt = sh('/venv/bin/python -m pytest -q -p no:cacheprovider test', wt, env)
        rc1, out1 = sh(run_demo, wt, env)
        ok = rc0 == 0 and rc1 != 0 and rct == 0
        print('demo without change: rc=%d   with change: rc=%d   test suite with change: rc=%d (%s)' % (rc0, rc1, rct, outt.strip().split('\n')[-1]))
        if not ok:
            print('NOT CONFIRMED\n--- demo without change:\n%s\n--- demo with change:\n%s' % (out0[-1500:], out1[-1500:]))
            return 1
        dst = os.path.join(HERE, 'seeded', name)
        shutil.rmtree(dst, ignore_errors=True)
        os.makedirs(dst)
        for f in os.listdir(src):
            if os.path.isfile(os.path.join(src, f)):
                shutil.copy(os.path.join(src, f), os.path.join(dst, f))
        notes = open(os.path.join(src, 'notes.md')).read() if os.path.exists(os.path.join(src, 'notes.md')) else ''
        meta = {'id': name, 'property': pid, 'needs_to_manifest': notes.strip()[:1500], 'origin': 'sub-agent given only the property text and a scratch worktree',
                'confirmed': {'demo_without_change_rc': rc0, 'demo_with_change_rc': rc1, 'test_suite_with_change': outt.strip().split('\n')[-1],
                              'ran': ['git worktree add (scratch, /repo HEAD)', run_demo + ' (unchanged tree)', 'git apply _seed/patch.diff',
                                      'pytest -q test (with change)', run_demo + ' (with change)']}}
        json.dump(meta, open(os.path.join(dst, 'meta.json'), 'w'), indent=1)
        idxp = os.path.join(HERE, 'seeded', 'index.json')
        idx = json.load(open(idxp)) if os.path.exists(idxp) else {'mutants': []}
        idx['mutants'] = [m for m in idx['mutants'] if m.get('id') != name] + [{'id': name, 'patch': 'seeded/%s/patch.diff' % name, 'property': pid}]
        idx['mutants'].sort(key=lambda m: m['id'])
        json.dump(idx, open(idxp, 'w'), indent=1)
        print('CONFIRMED -> %s' % dst)
        return 0
    finally:
        subprocess.call(['git', '-C', '/repo', 'worktree', 'remove', '--force', wt])


if __name__ == '__main__':
    sys.exit(main())
