"""simaudit: deterministic whole-program simulation with seeded fault injection for ssh-audit.

See /verif/DESIGN.md.  Nothing in this package imports ssh_audit at module import time except
`runner` (which does it after the seams are in place).
"""
