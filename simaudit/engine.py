"""Campaign engine: generate cases from VERIF_SEED, run them on a fork pool, judge, minimise, write replay files
and evidence.  Exit status: 0 held / 1 violation not listed in known_findings.json / 2 harness error."""
import concurrent.futures as _cf_unused  # noqa: F401  (imported before the seams replace its attributes)
import faulthandler
import hashlib
import importlib
import json
import multiprocessing
import os
import re
import shutil
import sys
import time
import traceback

HERE = os.path.dirname(os.path.dirname(os.path.abspath(__file__)))
SCRATCH_ROOT = '/dev/shm' if os.path.isdir('/dev/shm') else '/var/tmp'


def _real_time():
    from . import seams
    return seams.REAL.get('time.monotonic', time.monotonic)()


class Ctx:
    """Handed to Campaign.run_case: runs invocations, owns the per-case scratch directory."""

    def __init__(self, case_key):
        self.case_key = case_key
        self.records = 0
        self.vtime_us = 0
        self.events = 0
        self.faults = {}
        self.probes = {}
        self.digests = hashlib.sha256()
        self.harness_errors = []
        self.interleavings = set()
        self.states = set()
        self._dir = None
        self.switches = 0
        self.cover = False
        self.lines = set()

    def scratch(self):
        if self._dir is None:
            self._dir = os.path.join(SCRATCH_ROOT, 'ssh-audit-verif.%d' % os.getpid(), 'case-%s' % self.case_key)
            if os.path.isdir(self._dir):
                shutil.rmtree(self._dir, ignore_errors=True)
            os.makedirs(self._dir, exist_ok=True)
        return self._dir

    def cleanup(self):
        if self._dir is not None:
            shutil.rmtree(self._dir, ignore_errors=True)
            try:
                os.rmdir(os.path.dirname(self._dir))      # the per-process parent, once its last case directory is gone
            except OSError:
                pass
            self._dir = None

    def _account(self, rec):
        self.records += 1
        if rec.get('harness_error'):
            self.harness_errors.append(rec['harness_error'])
            return rec
        self.vtime_us += rec.get('vtime_us', 0)
        self.events += rec.get('events', 0)
        self.switches += rec.get('switches', 0)
        self.probes['line-level pre-emptions'] = self.probes.get('line-level pre-emptions', 0) + rec.get('preemptions', 0)
        if rec.get('sync_ops'):
            self.probes['lock/event operations of the tool (synchronisation seam)'] = self.probes.get('lock/event operations of the tool (synchronisation seam)', 0) + rec['sync_ops']
            self.probes['contended lock acquisitions'] = self.probes.get('contended lock acquisitions', 0) + rec.get('sync_contended', 0)
        for kk, v in rec.get('faults_fired', {}).items():
            self.faults[kk] = self.faults.get(kk, 0) + v
        for kk, v in rec.get('probes', {}).items():
            self.probes[kk] = self.probes.get(kk, 0) + v
        self.digests.update(repr((rec.get('digest'), rec.get('status'), rec.get('outcome'), rec.get('stdout'), rec.get('stderr'))).encode('utf-8', 'backslashreplace'))
        if rec.get('lines'):
            self.lines.update(rec['lines'])
        if rec.get('switches'):
            self.interleavings.add(hashlib.sha1(repr(rec.get('sched_trace')).encode()).hexdigest()[:16])
        st = (rec.get('status'), rec.get('outcome'), rec.get('nconns'),
              tuple(tuple(c.get('stage') for c in s.get('conns', [])) for s in rec.get('servers', [])))
        self.states.add(hashlib.sha1(repr(st).encode()).hexdigest()[:16])
        return rec

    def run(self, plan, real_timeout=60.0, hang_is_outcome=False):
        from . import runner
        if self.cover:
            plan = dict(plan, cover=True)
        if hang_is_outcome:
            # judged on the processor time the child used, not on the wall clock, so that a loaded machine changes nothing; the
            # wall-clock allowance (8x) only bounds the harness and ends in a harness error, never in a verdict
            rec = runner.run_forked(plan, real_timeout * 8, cpu_timeout=real_timeout)
        else:
            rec = runner.run_forked(plan, real_timeout)
        if rec.get('outcome') == 'HARNESS-TIMEOUT' and not rec.get('cpu_exceeded'):
            # the wall-clock allowance depends on how loaded the machine is: one more try with five times as much before the case
            # is reported as a harness error (the run itself is deterministic, so nothing else changes)
            rec = runner.run_forked(plan, real_timeout * (40 if hang_is_outcome else 5), cpu_timeout=real_timeout if hang_is_outcome else None)
        if hang_is_outcome and rec.get('cpu_exceeded'):
            # the tool kept the processor for the whole allowance without making a single simulated call: a campaign
            # that is about termination judges this as an outcome of the run instead of discarding the case
            rec = {'status': None, 'outcome': 'REAL_TIME_EXCEEDED', 'stdout': '', 'stderr': '', 'real_timeout_s': real_timeout}
        return self._account(rec)

    def run_fresh(self, plan, hashseed='0'):
        from . import runner
        return self._account(runner.run_fresh(plan, hashseed))


class HarnessError(Exception):
    pass


def _line_cov(hit):
    from . import runner
    ex = runner.executable_lines()
    per = {}
    for h in hit:
        fn, ln = h.rsplit(':', 1)
        per.setdefault(fn, set()).add(int(ln))
    out = {}
    for fn in ('ssh_audit.py', 'ssh_socket.py', 'hostkeytest.py', 'gextest.py', 'kexdh.py', 'dheat.py', 'policy.py', 'algorithms.py', 'software.py', 'banner.py', 'readbuf.py', 'writebuf.py',
               'ssh2_kex.py', 'ssh1_publickeymessage.py', 'outputbuffer.py', 'utils.py', 'timeframe.py', 'auditconf.py'):
        e = ex.get(fn, set())
        if e:
            got = len(per.get(fn, set()) & e)
            out[fn] = '%d/%d lines (%d%%)' % (got, len(e), round(100.0 * got / len(e)))
    return out


def load_campaign(pid):
    mod = importlib.import_module('simaudit.props.%s' % pid)
    return mod


def _case_worker(args):
    pid, case, want_detail = args
    faulthandler.dump_traceback_later(300, exit=True)
    try:
        from . import runner
        runner.prepare()
        camp = load_campaign(pid)
        ctx = Ctx(str(case.get('id', 'x')))
        ctx.cover = isinstance(case.get('id'), int) and case['id'] % 8 == 0    # line coverage is sampled on every 8th case
        t0 = _real_time()
        try:
            res = camp.run_case(case, ctx)
        finally:
            ctx.cleanup()
        out = {
            'id': case.get('id'), 'violations': res.get('violations', []), 'keys': res.get('keys', []), 'counters': res.get('counters', {}),
            'records': ctx.records, 'vtime_us': ctx.vtime_us, 'events': ctx.events, 'faults': ctx.faults, 'probes': ctx.probes,
            'digest': ctx.digests.hexdigest(), 'harness_errors': ctx.harness_errors[:3], 'interleavings': sorted(ctx.interleavings)[:64],
            'states': sorted(ctx.states)[:64], 'lines': sorted(ctx.lines), 'wall': _real_time() - t0, 'switches': ctx.switches, 'info': res.get('info', [])[:5],
        }
        if want_detail:
            out['detail'] = res.get('detail')
        return out
    except BaseException:
        return {'id': case.get('id'), 'violations': [], 'keys': [], 'harness_errors': [traceback.format_exc()], 'records': 0, 'digest': ''}
    finally:
        faulthandler.cancel_dump_traceback_later()


def make_pool(jobs):
    import concurrent.futures
    from . import seams
    Real = seams.REAL.get('cf.ThreadPoolExecutor')  # noqa: F841  (seams may or may not be installed yet)
    import concurrent.futures.process as cfp
    return cfp.ProcessPoolExecutor(max_workers=jobs, mp_context=multiprocessing.get_context('fork'))


def run_cases(pid, cases, jobs, budget_s=None, want_detail=False, progress=None):
    """Run cases on the pool; yields results in case order (deterministic aggregation)."""
    from . import seams
    results = {}
    t0 = _real_time()
    skipped = 0
    if jobs <= 1:
        for c in cases:
            if budget_s is not None and _real_time() - t0 > budget_s:
                skipped += 1
                continue
            results[c['id']] = _case_worker((pid, c, want_detail))
        return [results[c['id']] for c in cases if c['id'] in results], skipped
    real_wait = seams.REAL.get('cf.wait')
    import concurrent.futures as cf
    waitfn = real_wait or cf.wait
    with make_pool(jobs) as pool:
        pending = {}
        it = iter(cases)
        exhausted = False
        while True:
            while not exhausted and len(pending) < jobs * 3:
                if budget_s is not None and _real_time() - t0 > budget_s:
                    exhausted = True
                    skipped += sum(1 for _ in it)
                    break
                try:
                    c = next(it)
                except StopIteration:
                    exhausted = True
                    break
                pending[pool.submit(_case_worker, (pid, c, want_detail))] = c
            if not pending:
                break
            done, _ = waitfn(list(pending), timeout=600, return_when='FIRST_COMPLETED')
            if not done:
                raise HarnessError('pool made no progress for 600 s')
            for f in done:
                c = pending.pop(f)
                try:
                    results[c['id']] = f.result()
                except BaseException as e:
                    results[c['id']] = {'id': c['id'], 'violations': [], 'keys': [], 'harness_errors': ['worker died: %r' % (e,)], 'records': 0, 'digest': ''}
    return [results[c['id']] for c in cases if c['id'] in results], skipped


# ------------------------------------------------------------------------------------------ findings
def load_known():
    p = os.path.join(HERE, 'known_findings.json')
    if not os.path.exists(p):
        return []
    with open(p) as f:
        return json.load(f).get('findings', [])


def match_known(known, pid, sig):
    for k in known:
        if k.get('property') == pid and k.get('status') == 'known' and re.search(k['signature_pattern'], sig):
            return k
    return None


# ------------------------------------------------------------------------------------------ minimisation
def minimise(pid, case, sig, camp, budget_s=25.0, jobs=1):
    """Greedy delta debugging driven by the campaign's shrink() candidates; keeps a candidate only if the same
    signature is still reported."""
    if not hasattr(camp, 'shrink'):
        return case, 0
    t0 = _real_time()
    steps = 0
    cur = case
    improved = True
    while improved and _real_time() - t0 < budget_s:
        improved = False
        for cand in camp.shrink(cur):
            if _real_time() - t0 > budget_s:
                break
            cand = dict(cand)
            cand['id'] = case.get('id')
            r = _case_worker((pid, cand, False))
            if r.get('harness_errors'):
                continue
            if any(v['sig'] == sig for v in r['violations']):
                cur = cand
                steps += 1
                improved = True
                break
    return cur, steps


def write_replay(pid, sig, case, orig_case, result_digest, excerpt, steps):
    d = os.path.join(os.environ.get('VERIF_REPLAY_DIR', os.path.join(HERE, 'replays')), pid)
    os.makedirs(d, exist_ok=True)
    name = hashlib.sha1(sig.encode()).hexdigest()[:12] + '.json'
    path = os.path.join(d, name)
    obj = {'property': pid, 'signature': sig, 'seed': case.get('seed'), 'case': case, 'minimise_steps': steps,
           'original_case_digest': hashlib.sha256(json.dumps(orig_case, sort_keys=True).encode()).hexdigest(),
           'result_digest': result_digest, 'excerpt': excerpt}
    with open(path, 'w') as f:
        json.dump(obj, f, indent=1, sort_keys=True)
    return path


def replay(path):
    with open(path) as f:
        obj = json.load(f)
    pid = obj['property']
    from . import runner
    runner.prepare()
    camp = load_campaign(pid)
    r = _case_worker((pid, obj['case'], True))
    if r.get('harness_errors'):
        print('HARNESS-ERROR during replay: %s' % r['harness_errors'][0][-1500:])
        return 2
    sigs = [v['sig'] for v in r['violations']]
    same = obj['signature'] in sigs
    print('replay %s: property=%s signature=%r reproduced=%s digest_match=%s' % (path, pid, obj['signature'], same, r['digest'] == obj.get('result_digest')))
    for v in r['violations']:
        print('  violation: %s\n    %s' % (v['sig'], str(v.get('detail', ''))[:1500].replace('\n', '\n    ')))
    if same:
        print('VIOLATION property=%s replay=%s' % (pid, path))
        return 1
    return 0


# ------------------------------------------------------------------------------------------ main check
def check(pid, tier, seed, jobs, budget_s=None, out=sys.stdout):
    from . import runner
    runner.prepare()
    camp = load_campaign(pid)
    t0 = _real_time()
    cases = list(camp.cases(seed, tier))
    for i, c in enumerate(cases):
        c.setdefault('id', i)
        c.setdefault('seed', seed)
    if budget_s is None:
        budget_s = float(os.environ.get('VERIF_BUDGET_S', camp.BUDGET.get(tier, 600)))
    results, skipped = run_cases(pid, cases, jobs, budget_s)
    wall_run = _real_time() - t0
    harness = [(r['id'], e) for r in results for e in r.get('harness_errors', [])]
    # ---- aggregate
    keys = set()
    faults, probes, counters = {}, {}, {}
    evaluations = vtime = events = switches = 0
    inter, states = set(), set()
    lines_hit = set()
    by_sig = {}
    for r in results:
        evaluations += r.get('records', 0)
        vtime += r.get('vtime_us', 0)
        events += r.get('events', 0)
        switches += r.get('switches', 0)
        for kk in r.get('keys', []):
            keys.add(kk)
        for kk, v in r.get('faults', {}).items():
            faults[kk] = faults.get(kk, 0) + v
        for kk, v in r.get('probes', {}).items():
            probes[kk] = probes.get(kk, 0) + v
        for kk, v in r.get('counters', {}).items():
            counters[kk] = counters.get(kk, 0) + v
        lines_hit.update(r.get('lines', []))
        inter.update(r.get('interleavings', []))
        states.update(r.get('states', []))
        for v in r.get('violations', []):
            by_sig.setdefault(v['sig'], []).append((r['id'], v))
    known = load_known()
    listed = [k for k in known if k.get('property') == pid and k.get('status') == 'known']
    new_sigs = [s for s in sorted(by_sig) if match_known(known, pid, s) is None]
    reproduced = {}
    for s in by_sig:
        k = match_known(known, pid, s)
        if k is not None:
            reproduced[k['signature_pattern']] = reproduced.get(k['signature_pattern'], 0) + len(by_sig[s])
    # ---- minimise + replay files for new violations (bounded)
    case_by_id = {c['id']: c for c in cases}
    replay_paths = []
    for s in new_sigs[:6]:
        cid, v = by_sig[s][0]
        case = case_by_id[cid]
        small, steps = minimise(pid, case, s, camp, budget_s=20.0)
        rr = _case_worker((pid, small, True))
        path = write_replay(pid, s, small, case, rr.get('digest'), str(v.get('detail', ''))[:4000], steps)
        replay_paths.append((s, path, len(by_sig[s])))
    # example replay files of listed findings are (re)created when missing, from this run's first matching case
    for s in sorted(by_sig):
        kf = match_known(known, pid, s)
        if kf is not None and kf.get('example_replay'):
            ex = os.path.join(HERE, kf['example_replay'])
            if not os.path.exists(ex):
                cid, v = by_sig[s][0]
                small, steps = minimise(pid, case_by_id[cid], s, camp, budget_s=15.0)
                rr = _case_worker((pid, small, True))
                pth = write_replay(pid, s, small, case_by_id[cid], rr.get('digest'), str(v.get('detail', ''))[:4000], steps)
                os.replace(pth, ex)
    wall = _real_time() - t0
    # ---- evidence
    samples = []
    for c in cases[:2] + cases[len(cases) // 2:len(cases) // 2 + 1]:
        samples.append(camp.sample(c) if hasattr(camp, 'sample') else c)
    ev = {
        'property_id': pid, 'tier': tier, 'seed': seed, 'level': camp.LEVEL,
        'coverage': {
            'evaluations': evaluations, 'distinct_nontrivial': len(keys), 'rule': camp.RULE, 'samples': samples, 'exhaustive': False,
            'cases': len(results), 'cases_skipped_by_budget': skipped,
            'simulated_invocations_per_hour': int(evaluations / max(wall_run, 1e-6) * 3600), 'seeds': [seed],
            'simulated_seconds': round(vtime / 1e6, 3), 'kernel_events': events, 'context_switches': switches,
            'fault_kinds_fired': faults, 'probes_hit': probes, 'distinct_interleavings': len(inter), 'distinct_outcome_states': len(states),
            'counters': counters,
            'line_coverage_of_ssh_audit_sampled_every_8th_case': _line_cov(lines_hit),
            'components_real': ['every module under %s/src/ssh_audit (current working tree)' % runner.REPO, 'the exit-status wrapper %s/ssh-audit.py (run via runpy)' % runner.REPO,
                                'argparse, json, struct, hashlib, re, copy'],
            'components_model': ['TCP/IP (simaudit.net)', 'DNS resolver', 'select', 'clock and sleep', 'os.urandom / random.SystemRandom',
                                 'ThreadPoolExecutor scheduling (algorithm transcribed from CPython 3.12)', 'SSH servers and clients (simaudit.peers)'],
            'violation_signatures': {s: len(v) for s, v in by_sig.items()},
            'known_findings_reproduced': reproduced,
        },
        'assumptions': getattr(camp, 'ASSUMPTIONS', []),
        'wall_s': round(wall, 2), 'violations': sum(len(v) for s, v in by_sig.items() if s in new_sigs),
    }
    if os.environ.get('VERIF_LINES_DIR'):   # union-coverage tool (tools_coverage.py): which lines did this campaign reach
        os.makedirs(os.environ['VERIF_LINES_DIR'], exist_ok=True)
        with open(os.path.join(os.environ['VERIF_LINES_DIR'], pid + '.lines'), 'w') as f:
            f.write('\n'.join(sorted(lines_hit)))
    evdir = os.environ.get('VERIF_EVIDENCE_DIR', os.path.join(HERE, 'evidence'))
    os.makedirs(evdir, exist_ok=True)
    with open(os.path.join(evdir, pid + '.json'), 'w') as f:
        json.dump(ev, f, indent=1, sort_keys=True, default=str)
    # ---- report
    print('[%s %s seed=%d] cases=%d invocations=%d distinct_nontrivial=%d sim_time=%.1fs wall=%.1fs skipped=%d faults=%s' % (
        pid, tier, seed, len(results), evaluations, len(keys), vtime / 1e6, wall, skipped, json.dumps(faults, sort_keys=True)), file=out)
    if harness:
        print('HARNESS-ERROR property=%s: %d case(s); first (case %s):\n%s' % (pid, len(harness), harness[0][0], harness[0][1][-3000:]), file=out)
        return 2
    for k in listed:
        print('KNOWN-FINDING: property=%s %s [reproduced in this run: %s]' % (pid, k['what'], 'yes (%d)' % reproduced[k['signature_pattern']] if k['signature_pattern'] in reproduced else 'no'), file=out)
    for s, path, n in replay_paths:
        print('  new violation class (%d cases): %s' % (n, s), file=out)
        print('VIOLATION property=%s replay=%s' % (pid, path), file=out)
    for s in new_sigs[6:]:
        print('  further new violation class (no replay written): %s' % s, file=out)
    if new_sigs:
        return 1
    if len(keys) < 2:
        print('HARNESS-ERROR property=%s: campaign explored fewer than 2 distinct non-trivial cases' % pid, file=out)
        return 2
    return 0
