"""Invocation runner: one fork = one ssh-audit invocation = one fresh process image.

The parent ("pristine image") has the seams installed and ssh_audit imported but never runs any ssh_audit code.
"""
import gc
import io
import os
import pickle
import runpy
import select as _select_mod
import signal
import struct
import sys
import traceback

from . import seams
from . import kernel as _kernel
from .kernel import Kernel, SimAbort, SimUnsupported
from .net import World
from .peers import SimSSHServer, SimSSHClient

REPO = os.environ.get('VERIF_REPO', '/repo')
_prepared = False
_real_select = None


def prepare():
    """Install seams and import ssh_audit from the tree under test (once per orchestrator/worker)."""
    global _prepared, _real_select
    if _prepared:
        return
    _prepared = True
    sys.dont_write_bytecode = True
    src = os.path.join(REPO, 'src')
    if src in sys.path:
        sys.path.remove(src)
    sys.path.insert(0, src)
    seams.install()
    _real_select = seams.REAL['select.select']
    import ssh_audit.ssh_audit  # noqa: F401
    import ssh_audit.policy  # noqa: F401
    got = os.path.realpath(sys.modules['ssh_audit'].__file__)
    want = os.path.realpath(os.path.join(src, 'ssh_audit', '__init__.py'))
    if got != want:
        raise RuntimeError('ssh_audit imported from %s, expected %s' % (got, want))


def _start_cover():
    """Line coverage of the code under test via sys.monitoring (each location reports once, then disables itself)."""
    mon = sys.monitoring
    tool = 3
    hit = set()
    prefix = os.path.join(os.path.realpath(REPO), 'src', 'ssh_audit') + os.sep

    def on_line(code, line):
        fn = code.co_filename
        if fn.startswith(prefix):
            hit.add('%s:%d' % (fn[len(prefix):], line))
        return mon.DISABLE
    try:
        mon.use_tool_id(tool, 'simaudit-cover')
    except ValueError:
        return None
    mon.register_callback(tool, mon.events.LINE, on_line)
    mon.set_events(tool, mon.events.LINE)
    return hit


def executable_lines():
    """{file: set(lines)} of every line that carries code in src/ssh_audit (from the compiled code objects)."""
    out = {}
    base = os.path.join(REPO, 'src', 'ssh_audit')
    for name in sorted(os.listdir(base)):
        if not name.endswith('.py'):
            continue
        with open(os.path.join(base, name), 'rb') as f:
            try:
                code = compile(f.read(), name, 'exec')
            except SyntaxError:
                continue
        lines = set()
        stack = [code]
        while stack:
            c = stack.pop()
            for _s, _e, ln in c.co_lines():
                if ln is not None and ln > 0:
                    lines.add(ln)
            stack.extend(k for k in c.co_consts if hasattr(k, 'co_lines'))
        out[name] = lines
    return out


class _SimDate:
    """Stands in for datetime.date inside ssh_audit.policy (only today() is used)."""

    @staticmethod
    def today():
        import datetime
        w = seams.ACTIVE
        return datetime.date.fromtimestamp(w.k.wall() if w is not None else 0)


def _exit_status(code):
    if code is None:
        return 0, ''
    if isinstance(code, int):
        return code & 0xff, ''
    return 1, str(code) + '\n'


def execute(plan):
    """Run one invocation in *this* process (which is expected to be a throw-away fork).  Returns the record."""
    prepare()
    knobs = plan.get('knobs', {})
    sched = plan.get('sched')
    if sched and sched.get('preempt_p'):
        sched = dict(sched, preempt_prefix=os.path.join(os.path.realpath(REPO), 'src', 'ssh_audit') + os.sep)
    k = Kernel(plan.get('seed', 0), sched, tuple(knobs.get('cpu_cost', (1, 50))),
               max_events=int(knobs.get('max_events', 2_000_000)), max_vtime_s=float(knobs.get('max_vtime_s', 4 * 3600)),
               quantum_us=int(knobs.get('quantum_us', 0)))
    if knobs.get('clock_jump'):
        k.clock_jump = tuple(knobs['clock_jump'])
    k.keep_log = bool(plan.get('keep_log', False))
    world = World(k, plan)
    servers = [SimSSHServer(world, s) for s in plan.get('world', {}).get('servers', [])]
    clients = [SimSSHClient(world, c) for c in plan.get('world', {}).get('clients', [])]
    d = plan.get('dir')
    if d:
        os.makedirs(d, exist_ok=True)
        for name, content in plan.get('files', {}).items():
            path = os.path.join(d, name)
            if content is None:
                if os.path.exists(path):
                    os.unlink(path)
                continue
            with open(path, 'w', encoding='utf-8', newline='') as f:
                f.write(content)
            mode = plan.get('file_modes', {}).get(name)
            if mode is not None:
                os.chmod(path, mode)
        os.chdir(d)
    argv = [a.replace('{DIR}', '.') for a in plan['argv']]      # the child runs inside its scratch directory, so paths stay seed-independent
    out, err = io.StringIO(), io.StringIO()
    rec = {'argv': argv, 'status': None, 'outcome': None, 'exc': None}
    state = {'done': False}

    def finish(outcome):
        rec['outcome'] = outcome
        rec['stdout'] = out.getvalue()
        rec['stderr'] = err.getvalue()
        rec['servers'] = [s.summary() for s in servers]
        rec['clients'] = [c.summary() for c in clients]
        rec['resolver'] = list(world.resolver_log)
        rec['connects'] = list(world.connect_log)
        rec['nconns'] = len(world.conns)
        rec['peak_open'] = world.peak_open
        rec['net_time_us'] = world.net_time_us
        rec['faults_fired'] = dict(world.faults_fired)
        rec['probes'] = dict(world.probes)
        rec['tripwires'] = list(world.tripwires)
        rec['digest'] = k.digest()
        rec['nlog'] = k.nlog
        rec['vtime_us'] = k.now
        rec['events'] = k.events_run
        rec['switches'] = k.switches
        rec['preemptions'] = k.preemptions
        rec['sync_ops'] = getattr(world, 'sync_ops', 0)
        rec['sync_contended'] = getattr(world, 'sync_contended', 0)
        rec['sched_trace'] = list(k.sched_trace[:512])
        rec['assignments'] = [list(e.assignments) for e in world.executors]
        rec['rand_log'] = list(world.rand.log) if world.rand else []
        rec['unsupported'] = list(_kernel.UNSUPPORTED)
        if cover is not None:
            rec['lines'] = sorted(cover)
        rec['ntasks'] = len(k.tasks)
        if plan.get('keep_log'):
            rec['log'] = k.log[:5000]
        files = {}
        for name in plan.get('collect_files', []):
            try:
                with open(os.path.join(d, name), 'r', encoding='utf-8', newline='') as f:
                    files[name] = f.read()
            except OSError as e:
                files[name] = None
        rec['files'] = files
        return rec

    def on_abort(outcome):
        # the run is over (hang / budget): report from whichever thread noticed, never return
        if state['done']:
            return
        state['done'] = True
        sys.stdout, sys.stderr = old_out, old_err
        finish(outcome)
        rec['open_sockets'] = sum(1 for s in world.live_sockets() if not s.closed)
        _deliver(rec)

    k.abort_handler = on_abort
    old_out, old_err, old_argv = sys.stdout, sys.stderr, sys.argv
    env_backup = dict(os.environ)
    for name, val in plan.get('env', {}).items():
        if val is None:
            os.environ.pop(name, None)
        else:
            os.environ[name] = val
    pol = sys.modules.get('ssh_audit.policy')
    if pol is not None and hasattr(pol, 'date'):
        pol.date = _SimDate
    gc.disable()
    cover = None
    if plan.get('cover') and hasattr(sys, 'monitoring'):
        cover = _start_cover()
    seams.activate(world, knobs)
    sys.stdout, sys.stderr = out, err
    sys.argv = [os.path.join(REPO, 'ssh-audit.py')] + argv
    status = None
    try:
        try:
            runpy.run_path(os.path.join(REPO, 'ssh-audit.py'), run_name='__main__')
            status = 0
        except SystemExit as e:
            status, msg = _exit_status(e.code)
            if msg:
                err.write(msg)
        except SimAbort:
            raise
        except BaseException:
            # what the interpreter would do with an exception escaping the script: traceback on stderr, status 1
            rec['exc'] = traceback.format_exc()
            err.write(rec['exc'])
            status = 1
    except SimAbort as e:
        sys.stdout, sys.stderr, sys.argv = old_out, old_err, old_argv
        if not state['done']:
            on_abort(str(e))
        return rec
    finally:
        sys.stdout, sys.stderr, sys.argv = old_out, old_err, old_argv
    rec['status'] = status
    # interpreter shutdown: drop the frames' references, collect, then look at what is still open
    gc.collect()
    # let in-flight segments / FINs / connection set-ups arrive so the peers see the closes (events hold references
    # to sockets, so only afterwards can unreferenced sockets be finalised as CPython would)
    def drain():
        try:
            for _ in range(100000):
                if not k.heap:
                    break
                t = k.heap[0][0]
                if t > k.now + 10_000_000:
                    break
                k.now = max(k.now, t)
                k._run_due()
        except SimAbort:
            pass
    drain()
    gc.collect()
    # a socket that only a pending event (its own connection set-up) kept alive is finalised by the collection above: in CPython it
    # would have been closed when the last frame let go of it, so the FIN it sends now must still reach the peer
    drain()
    rec['open_sockets'] = len([s.fd for s in world.live_sockets() if not s.closed])
    seams.deactivate()
    os.environ.clear()
    os.environ.update(env_backup)
    state['done'] = True
    return finish('exit')


_deliver_fd = None


def _deliver(rec):
    """Child side: send the record to the parent and end the process."""
    data = pickle.dumps(rec, protocol=4)
    fd = _deliver_fd
    if fd is None:
        raise RuntimeError('no delivery pipe')
    os.write(fd, struct.pack('>Q', len(data)))
    off = 0
    while off < len(data):
        off += os.write(fd, data[off:off + 65536])
    os._exit(0)


def _child_cpu_s(pid):
    """Processor time (user + system, all threads) the child has used so far, in seconds; None if it cannot be read."""
    try:
        with open('/proc/%d/stat' % pid) as f:
            rest = f.read().rsplit(')', 1)[1].split()
        return (int(rest[11]) + int(rest[12])) / float(os.sysconf('SC_CLK_TCK'))
    except (OSError, IndexError, ValueError):
        return None


def run_forked(plan, real_timeout=60.0, cpu_timeout=None):
    """Fork, run one invocation in the child, return its record (or a harness-error record).
    cpu_timeout: the child is also stopped once it has *used* that much processor time (record field cpu_exceeded) - a verdict
    that does not depend on how loaded the machine is, unlike the wall-clock allowance."""
    global _deliver_fd
    prepare()
    r, w = os.pipe()
    pid = os.fork()
    if pid == 0:
        try:
            os.close(r)
            _deliver_fd = w
            signal.signal(signal.SIGINT, signal.SIG_IGN)
            try:
                rec = execute(plan)
            except BaseException:
                rec = {'harness_error': traceback.format_exc(), 'status': None, 'outcome': 'HARNESS', 'stdout': '', 'stderr': ''}
            _deliver(rec)
        finally:
            os._exit(3)
    os.close(w)
    buf = bytearray()
    need = None
    import time as _t
    deadline = seams.REAL['time.monotonic']() + real_timeout
    try:
        while True:
            left = deadline - seams.REAL['time.monotonic']()
            if left <= 0:
                os.kill(pid, signal.SIGKILL)
                os.waitpid(pid, 0)
                return {'harness_error': 'HARNESS-TIMEOUT after %.0fs real time' % real_timeout, 'status': None, 'outcome': 'HARNESS-TIMEOUT',
                        'stdout': '', 'stderr': ''}
            rl, _, _ = _real_select([r], [], [], min(left, 1.0 if cpu_timeout else 5.0))
            if not rl:
                if cpu_timeout and (_child_cpu_s(pid) or 0) >= cpu_timeout:
                    os.kill(pid, signal.SIGKILL)
                    os.waitpid(pid, 0)
                    return {'harness_error': 'HARNESS-TIMEOUT after %.0fs of processor time' % cpu_timeout, 'status': None, 'outcome': 'HARNESS-TIMEOUT',
                            'cpu_exceeded': True, 'stdout': '', 'stderr': ''}
                continue
            chunk = os.read(r, 1 << 20)
            if not chunk:
                break
            buf += chunk
            if need is None and len(buf) >= 8:
                need = struct.unpack('>Q', bytes(buf[:8]))[0]
            if need is not None and len(buf) >= 8 + need:
                break
    finally:
        os.close(r)
    os.waitpid(pid, 0)
    if need is None or len(buf) < 8 + need:
        return {'harness_error': 'child died without a record (%d bytes)' % len(buf), 'status': None, 'outcome': 'HARNESS', 'stdout': '', 'stderr': ''}
    rec = pickle.loads(bytes(buf[8:8 + need]))
    if rec.get('unsupported'):
        rec['harness_error'] = 'unsupported call(s): %s' % '; '.join(rec['unsupported'][:3])
    return rec


def run_fresh(plan, hashseed='0', real_timeout=120.0):
    """Run one invocation in a brand-new interpreter (own PYTHONHASHSEED).  Slower; used for hash-order checks."""
    import subprocess
    env = dict(os.environ)
    env['PYTHONHASHSEED'] = str(hashseed)
    env['VERIF_REPO'] = REPO
    env['PYTHONPATH'] = os.path.dirname(os.path.dirname(os.path.abspath(__file__)))
    env['PYTHONDONTWRITEBYTECODE'] = '1'
    p = subprocess.run([sys.executable, '-m', 'simaudit.child'], input=pickle.dumps(plan, protocol=4), stdout=subprocess.PIPE,
                       stderr=subprocess.PIPE, env=env, timeout=real_timeout)
    if p.returncode != 0 or not p.stdout:
        return {'harness_error': 'fresh child rc=%s: %s' % (p.returncode, p.stderr.decode('utf-8', 'replace')[-2000:]), 'status': None,
                'outcome': 'HARNESS', 'stdout': '', 'stderr': ''}
    return pickle.loads(p.stdout)
