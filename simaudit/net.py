"""SimNet: TCP model (two byte pipes per connection), socket surface, resolver, select."""
import errno
import ipaddress
import os
import socket as _socket
import weakref

from .kernel import SimUnsupported, subrng

AF_INET = int(_socket.AF_INET)
AF_INET6 = int(_socket.AF_INET6)
AF_UNSPEC = int(_socket.AF_UNSPEC)
SOCK_STREAM = int(_socket.SOCK_STREAM)


def ip_family(s):
    try:
        ip = ipaddress.ip_address(s)
    except ValueError:
        return None
    return AF_INET if ip.version == 4 else AF_INET6


class Pipe:
    __slots__ = ('buf', 'fin', 'rst', 'last_arrival', 'on_arrival', 'total', 'closed_reader', 'inflight', 'end', 'rst_answered')

    def __init__(self):
        self.buf = bytearray()
        self.fin = False
        self.rst = False
        self.last_arrival = 0
        self.on_arrival = None
        self.total = 0
        self.closed_reader = False  # reader has closed: arriving data is discarded
        self.inflight = []
        self.end = None             # the End that reads from this pipe
        self.rst_answered = False


class End:
    """One end of a connection: reads from rx, writes into other.rx."""
    __slots__ = ('conn', 'rx', 'other', 'name', 'sent_fin', 'addr')

    def __init__(self, conn, name):
        self.conn = conn
        self.rx = Pipe()
        self.rx.end = self
        self.other = None
        self.name = name
        self.sent_fin = False
        self.addr = None


class Connection:
    def __init__(self, world, ordinal, a_addr, b_addr):
        self.world = world
        self.ordinal = ordinal          # global ordinal among connections of this run
        self.a = End(self, 'a')         # initiator
        self.b = End(self, 'b')         # acceptor
        self.a.other, self.b.other = self.b, self.a
        self.a.addr, self.b.addr = a_addr, b_addr
        self.opened_at = world.k.now
        self.closed_at = None
        self.established = False


class World:
    """Everything outside the process under test: network, resolver, peers, bookkeeping."""

    def __init__(self, kernel, plan):
        self.k = kernel
        self.plan = plan
        net = plan.get('net', {})
        self.rtt = int(net.get('rtt_us', 200))
        self.jitter = int(net.get('jitter_us', 0))
        self.seg = net.get('seg', {'mode': 'msg'})
        self.gap = int(net.get('gap_us', 0))
        self.lat_rng = subrng(plan.get('seed', 0), 'lat')
        self.seg_rng = subrng(plan.get('seed', 0), 'seg')
        self.eagain = int(net.get('eagain', 0))          # number of spurious EAGAINs to inject
        self.eagain_rng = subrng(plan.get('seed', 0), 'eagain')
        self.listeners = {}      # (ip, port) -> peer server object with .admit()/.accept()
        self.tool_listeners = {}  # (ip, port) -> SimSocket listening (client-audit mode)
        self.addr_state = dict(plan.get('world', {}).get('addrs', {}))
        self.hosts = dict(plan.get('world', {}).get('hosts', {}))
        self.conns = []
        self.sockets = {}        # fd -> weakref(SimSocket): an unreferenced socket is finalised like a real one
        self.next_fd = 1000
        self.next_eport = 40000
        self.resolver_log = []
        self.connect_log = []    # (family, ip, port, outcome)
        self.peak_open = 0
        self.faults_fired = {}
        self.probes = {}         # coverage probes
        self.tripwires = []
        self.max_conns = int(plan.get('knobs', {}).get('max_conns', 50000))
        # bytes one send() call takes at most (a full send buffer makes send() on a socket with a timeout return a short count); 0 = unlimited
        self.sndbuf = int(plan.get('knobs', {}).get('sndbuf', 0) or 0)
        # data queued before an RST arrived: still readable first (Linux) or discarded with the reset (BSD-like); seeded per plan unless given
        # two coherent socket-semantics profiles, seeded per plan unless the knobs say otherwise.  'linux': data for a socket that is
        # already closed is answered with a reset, and data queued before a reset arrived can still be read first.  'quiet': such data is
        # dropped silently and a reset discards what was queued (the model this simulator started with).
        linux = subrng(plan.get('seed', 0), 'socket-semantics').random() < 0.5
        ra = plan.get('knobs', {}).get('rst_after_close')
        self.rst_after_close = bool(ra) if ra is not None else linux
        rk = plan.get('knobs', {}).get('rst_keeps_data')
        self.rst_keeps_data = bool(rk) if rk is not None else linux
        self.net_time_us = 0     # virtual time spent by data in flight (latency, gaps, injected delays)
        self.executors = []
        self.exec_future_counter = 0
        self.exec_done_counter = 0
        self.misc_rng = subrng(plan.get('seed', 0), 'misc')
        self.rand = None
        self.last_x = None

    # ---------------------------------------------------------------- helpers
    def probe(self, name, n=1):
        self.probes[name] = self.probes.get(name, 0) + n

    def fired(self, kind, n=1):
        self.faults_fired[kind] = self.faults_fired.get(kind, 0) + n

    def lat(self):
        j = self.lat_rng.randint(0, self.jitter) if self.jitter else 0
        return self.rtt // 2 + j

    def live_sockets(self):
        out = []
        for ref in self.sockets.values():
            s = ref()
            if s is not None:
                out.append(s)
        return out

    def open_tool_conns(self):
        return sum(1 for s in self.live_sockets() if s.end is not None and not s.closed)

    # ---------------------------------------------------------------- resolver
    def getaddrinfo(self, host, port, family=0, type=0, proto=0, flags=0):
        k = self.k
        k.yield_point()
        family = int(family)
        if isinstance(host, bytes):
            host = host.decode('ascii', 'replace')
        self.resolver_log.append((host, port, family))
        k.record('tool', 'getaddrinfo', host, port, family)
        fam = ip_family(host) if host is not None else None
        answers = []
        if fam is not None:
            answers = [(fam, host)]
        else:
            ent = self.hosts.get(host)
            if ent is not None and ent.get('delay_us'):
                # a slow resolver: the answer (or the error) comes after this long; the C library call has no time-out of the tool's choosing
                self.fired('slow_resolver')
                k.sleep(int(ent['delay_us']))
            if ent is None or ent.get('gaierror'):
                raise _socket.gaierror(-2, 'Name or service not known')
            for f, ip in ent.get('answers', []):
                answers.append((AF_INET if int(f) == 4 else AF_INET6, ip))
        out = []
        for f, ip in answers:
            if family not in (AF_UNSPEC, f):
                continue
            sa = (ip, port) if f == AF_INET else (ip, port, 0, 0)
            out.append((_socket.AddressFamily(f), _socket.SOCK_STREAM, 6, '', sa))
        if not out and fam is not None:
            raise _socket.gaierror(-9, 'Address family for hostname not supported')
        if not out and self.hosts.get(host, {}).get('empty_is_error', True):
            # the C library never answers with an empty list: a name without a record of the requested family is an error too
            raise _socket.gaierror(-5, 'No address associated with hostname')
        return out

    # ---------------------------------------------------------------- transmission
    def segment(self, data, atomic_lines=False):
        mode = self.seg.get('mode', 'msg')
        if mode == 'msg' or len(data) <= 1:
            return [data]
        if atomic_lines and self.seg.get('banner_atomic', True):
            # cut only after newlines
            parts = data.split(b'\n')
            chunks = [p + b'\n' for p in parts[:-1]]
            if parts[-1]:
                chunks.append(parts[-1])
            if mode == 'byte' or mode == 'mss' or mode == 'rand':
                return chunks
            return [data]
        if mode == 'byte':
            return [data[i:i + 1] for i in range(len(data))]
        if mode == 'mss':
            n = max(1, int(self.seg.get('mss', 8)))
            return [data[i:i + n] for i in range(0, len(data), n)]
        if mode == 'rand':
            ncuts = min(len(data) - 1, int(self.seg.get('cuts', 3)))
            cuts = sorted(set(self.seg_rng.randrange(1, len(data)) for _ in range(ncuts)))
            out, prev = [], 0
            for c in cuts:
                out.append(data[prev:c])
                prev = c
            out.append(data[prev:])
            return out
        return [data]

    def transmit(self, src_end, data, segments=None, extra_delay=0):
        """Deliver bytes from src_end to its peer, FIFO, as one or more segments."""
        pipe = src_end.other.rx
        if segments is None:
            segments = [data]
        k = self.k
        t = max(k.now + self.lat() + int(extra_delay), pipe.last_arrival)
        for i, seg in enumerate(segments):
            if i and self.gap:
                t += self.gap
            pipe.last_arrival = t
            pipe.inflight.append(bytes(seg))
            k.at(t, self._arrive, pipe)
        self.net_time_us += t - k.now

    def _arrive(self, pipe):
        # strict FIFO per pipe, whatever the tie-break among same-instant events
        item = pipe.inflight.pop(0)
        if item == 'FIN':
            pipe.fin = True
        elif item == 'RST':
            pipe.rst = True
            if not self.rst_keeps_data:
                del pipe.buf[:]
        elif pipe.closed_reader or pipe.rst:
            if pipe.closed_reader and not pipe.rst and self.rst_after_close and not pipe.rst_answered and pipe.end is not None:
                # data for a socket that is already closed is answered with a reset (once), as a real stack does
                pipe.rst_answered = True
                self.fired('rst_after_close')
                self.send_rst(pipe.end)
            return
        else:
            pipe.buf += item
            pipe.total += len(item)
        if pipe.on_arrival is not None:
            pipe.on_arrival()

    def send_fin(self, src_end, extra_delay=0):
        if src_end.sent_fin:
            return
        src_end.sent_fin = True
        pipe = src_end.other.rx
        t = max(self.k.now + self.lat() + int(extra_delay), pipe.last_arrival)
        pipe.last_arrival = t
        pipe.inflight.append('FIN')
        self.k.at(t, self._arrive, pipe)

    def send_rst(self, src_end, extra_delay=0):
        src_end.sent_fin = True
        pipe = src_end.other.rx
        t = max(self.k.now + self.lat() + int(extra_delay), pipe.last_arrival)
        pipe.last_arrival = t
        pipe.inflight.append('RST')
        self.k.at(t, self._arrive, pipe)

    # ---------------------------------------------------------------- connection set-up
    def new_conn(self, a_addr, b_addr):
        if len(self.conns) >= self.max_conns:
            self.k.abort('CONNS_EXCEEDED')
        c = Connection(self, len(self.conns), a_addr, b_addr)
        self.conns.append(c)
        return c

    def eport(self):
        self.next_eport += 1
        return self.next_eport

    def route(self, ip, port):
        """What happens to a SYN sent to (ip, port): ('accept', server) | ('refuse',) | ('blackhole',) | ('unreachable',)"""
        st = self.addr_state.get(ip, 'ok')
        if st == 'blackhole':
            return ('blackhole',)
        if st == 'unreachable':
            return ('unreachable',)
        srv = self.listeners.get((ip, port))
        if srv is None:
            return ('refuse',)
        verdict = srv.admit()
        if verdict == 'accept':
            return ('accept', srv)
        return (verdict,)


class SimSocket:
    """The socket object handed to the code under test."""

    def __init__(self, world, family=AF_INET, type=SOCK_STREAM, proto=0, fileno=None):
        if fileno is not None:
            raise SimUnsupported('socket(fileno=...)')
        if int(type) != SOCK_STREAM:
            raise SimUnsupported('socket type %r' % (type,))
        self.w = world
        self.family = _socket.AddressFamily(int(family)) if int(family) in (AF_INET, AF_INET6) else int(family)
        self.type = _socket.SOCK_STREAM
        self.proto = proto
        self._timeout = None
        self.end = None
        self.closed = False
        self.err = None            # pending asynchronous connect error (errno)
        self.connecting = False
        self.listening = False
        self.bound = None
        self.pending = []          # accepted-but-not-yet-accept()ed connections (listening sockets)
        self.rd_shut = False
        self.wr_shut = False
        self.rst_reported = False   # (linux profile) the reset has already been reported to the caller once
        self.fd = world.next_fd
        world.next_fd += 1
        world.sockets[self.fd] = weakref.ref(self)
        world.k.record('tool', 'socket', self.fd, int(family))

    def __hash__(self):
        return self.fd

    def __eq__(self, other):
        return self is other

    def __enter__(self):
        return self

    def __exit__(self, *a):
        self.close()

    def __del__(self):
        # mirrors socket.socket's finaliser: an unreferenced socket releases its descriptor
        try:
            if not self.closed:
                self._do_close(gc=True)
        except Exception:
            pass

    def __repr__(self):
        return '<SimSocket fd=%d>' % self.fd

    # ---------------------------------------------------------------- options
    def settimeout(self, t):
        if t is not None and t < 0:
            raise ValueError('Timeout value out of range')
        self._timeout = None if t is None else float(t)

    def gettimeout(self):
        return self._timeout

    def setblocking(self, flag):
        self._timeout = None if flag else 0.0

    def getblocking(self):
        return self._timeout != 0.0

    def setsockopt(self, *a):
        return None

    def getsockopt(self, level, opt, *a):
        if int(opt) == int(_socket.SO_ERROR):
            e, self.err = self.err, None
            return e or 0
        return 0

    def fileno(self):
        return -1 if self.closed else self.fd

    def _check_open(self):
        if self.closed:
            raise OSError(errno.EBADF, 'Bad file descriptor')

    def _tmo_us(self):
        return None if self._timeout is None else int(self._timeout * 1_000_000)

    # ---------------------------------------------------------------- client side
    def _norm_addr(self, addr):
        if not isinstance(addr, tuple) or len(addr) < 2:
            raise TypeError('getsockaddrarg: AF_INET address must be tuple')
        host, port = addr[0], int(addr[1])
        if not (0 <= port <= 65535):
            raise OverflowError('bind(): port must be 0-65535.')
        if ip_family(host) is None:
            # real sockets resolve names in connect(); go through the simulated resolver
            infos = self.w.getaddrinfo(host, port, int(self.family), SOCK_STREAM)
            host = infos[0][4][0]
        return host, port

    def connect(self, addr):
        self._check_open()
        w, k = self.w, self.w.k
        k.yield_point()
        ip, port = self._norm_addr(addr)
        if self._timeout == 0.0:
            rc = self._start_connect(ip, port)
            raise BlockingIOError(rc, 'Operation now in progress')
        route = w.route(ip, port)
        k.record('tool', 'connect', self.fd, ip, port, route[0])
        tmo = self._tmo_us()
        if route[0] == 'blackhole':
            w.connect_log.append((int(self.family), ip, port, 'timeout'))
            if tmo is None:
                tmo = 127_000_000  # kernel SYN retry limit
                k.block(lambda: False, tmo)
                raise TimeoutError(errno.ETIMEDOUT, 'Connection timed out')
            k.block(lambda: False, tmo)
            raise _socket.timeout('timed out')
        rtt = w.lat() + w.lat()
        if tmo is not None and rtt >= tmo:
            w.connect_log.append((int(self.family), ip, port, 'timeout'))
            k.block(lambda: False, tmo)
            raise _socket.timeout('timed out')
        if route[0] == 'unreachable':
            w.connect_log.append((int(self.family), ip, port, 'unreachable'))
            k.sleep(rtt)
            raise OSError(errno.EHOSTUNREACH, 'No route to host')
        if route[0] == 'refuse':
            w.connect_log.append((int(self.family), ip, port, 'refused'))
            k.sleep(rtt)
            raise ConnectionRefusedError(errno.ECONNREFUSED, 'Connection refused')
        srv = route[1]
        conn = w.new_conn(('10.0.0.1' if ip_family(ip) == AF_INET else 'fd00::1', w.eport()), (ip, port))
        w.connect_log.append((int(self.family), ip, port, 'ok'))
        self.end = conn.a
        half = rtt // 2
        k.at(k.now + half, srv.accept, conn)
        k.sleep(rtt)
        conn.established = True
        w.peak_open = max(w.peak_open, w.open_tool_conns())
        return None

    def _start_connect(self, ip, port):
        w, k = self.w, self.w.k
        route = w.route(ip, port)
        k.record('tool', 'connect_nb', self.fd, ip, port, route[0])
        rtt = w.lat() + w.lat()
        self.connecting = True
        if route[0] == 'accept':
            srv = route[1]
            conn = w.new_conn(('10.0.0.1', w.eport()), (ip, port))
            w.connect_log.append((int(self.family), ip, port, 'ok'))
            self.end = conn.a
            k.at(k.now + rtt // 2, srv.accept, conn)
            k.at(k.now + rtt, self._established, conn)
            w.peak_open = max(w.peak_open, w.open_tool_conns())
        elif route[0] == 'refuse':
            w.connect_log.append((int(self.family), ip, port, 'refused'))
            k.at(k.now + rtt, self._conn_err, errno.ECONNREFUSED)
        elif route[0] == 'unreachable':
            w.connect_log.append((int(self.family), ip, port, 'unreachable'))
            k.at(k.now + rtt, self._conn_err, errno.EHOSTUNREACH)
        else:
            w.connect_log.append((int(self.family), ip, port, 'timeout'))
        return errno.EINPROGRESS

    def _established(self, conn):
        self.connecting = False
        conn.established = True

    def _conn_err(self, e):
        self.connecting = False
        self.err = e

    def connect_ex(self, addr):
        self._check_open()
        self.w.k.yield_point()
        if self._timeout == 0.0:
            ip, port = self._norm_addr(addr)
            return self._start_connect(ip, port)
        try:
            self.connect(addr)
        except OSError as e:
            return e.errno or errno.ETIMEDOUT
        return 0

    # ---------------------------------------------------------------- data
    def _readable(self):
        if self.err is not None:
            return True
        if self.listening:
            return bool(self.pending)
        e = self.end
        if e is None:
            return False
        rx = e.rx
        return bool(rx.buf) or rx.fin or rx.rst

    def recv(self, n, flags=0):
        self._check_open()
        if flags:
            raise SimUnsupported('recv flags=%r' % (flags,))
        w, k = self.w, self.w.k
        k.yield_point()
        if self.err is not None:
            e, self.err = self.err, None
            k.record('tool', 'recv_err', self.fd, e)
            raise OSError(e, os.strerror(e))
        if self.end is None:
            raise OSError(errno.ENOTCONN, 'Transport endpoint is not connected')
        if self.rd_shut:
            return b''
        rx = self.end.rx
        if w.eagain > 0 and self._timeout != 0.0 and not rx.buf and w.eagain_rng.random() < 0.5:
            w.eagain -= 1
            w.fired('eagain')
            k.record('tool', 'recv_eagain', self.fd)
            raise BlockingIOError(errno.EAGAIN, 'Resource temporarily unavailable')
        if not self._readable():
            if self._timeout == 0.0:
                raise BlockingIOError(errno.EAGAIN, 'Resource temporarily unavailable')
            ok = k.block(self._readable, self._tmo_us())
            if not ok:
                k.record('tool', 'recv_timeout', self.fd)
                raise _socket.timeout('timed out')
        if rx.rst and not (w.rst_keeps_data and rx.buf):
            if w.rst_keeps_data and self.rst_reported:
                # (linux profile) the pending error of a socket is reported once, by whichever call meets it first; after that a
                # reset connection reads as closed
                k.record('tool', 'recv_eof_after_rst', self.fd)
                return b''
            self.rst_reported = True
            k.record('tool', 'recv_rst', self.fd)
            raise ConnectionResetError(errno.ECONNRESET, 'Connection reset by peer')
        if rx.buf:
            data = bytes(rx.buf[:n])
            del rx.buf[:n]
            k.record('tool', 'recv', self.fd, len(data))
            return data
        k.record('tool', 'recv_eof', self.fd)
        return b''

    def recv_into(self, buf, nbytes=0, flags=0):
        data = self.recv(nbytes or len(buf), flags)
        buf[:len(data)] = data
        return len(data)

    def send(self, data, flags=0):
        self._check_open()
        w, k = self.w, self.w.k
        k.yield_point()
        if self.end is None:
            raise OSError(errno.ENOTCONN if self.err is None else errno.EPIPE, 'Broken pipe')
        if self.wr_shut:
            raise BrokenPipeError(errno.EPIPE, 'Broken pipe')
        if self.end.rx.rst:
            k.record('tool', 'send_rst', self.fd)
            if w.rst_keeps_data and not self.rst_reported:
                self.rst_reported = True
                raise ConnectionResetError(errno.ECONNRESET, 'Connection reset by peer')
            raise BrokenPipeError(errno.EPIPE, 'Broken pipe')
        data = bytes(data)
        if w.sndbuf and len(data) > w.sndbuf:
            data = data[:w.sndbuf]
            w.fired('short_send')
        k.record('tool', 'send', self.fd, len(data))
        w.transmit(self.end, data)
        return len(data)

    def sendall(self, data, flags=0):
        data = bytes(data)
        while True:
            n = self.send(data, flags)
            data = data[n:]
            if not data:
                return None

    def makefile(self, *a, **kw):
        raise SimUnsupported('socket.makefile')

    def getpeername(self):
        if self.end is None:
            raise OSError(errno.ENOTCONN, 'Transport endpoint is not connected')
        return self.end.other.addr

    def getsockname(self):
        if self.end is not None:
            return self.end.addr
        return self.bound or ('0.0.0.0', 0)

    # ---------------------------------------------------------------- teardown
    def shutdown(self, how):
        self._check_open()
        self.w.k.tick()
        if self.end is None or (self.connecting and not self.end.conn.established) or self.end.rx.rst:
            raise OSError(errno.ENOTCONN, 'Transport endpoint is not connected')
        how = int(how)
        if how in (int(_socket.SHUT_WR), int(_socket.SHUT_RDWR)):
            self.wr_shut = True
            self.w.send_fin(self.end)
        if how in (int(_socket.SHUT_RD), int(_socket.SHUT_RDWR)):
            self.rd_shut = True
        self.w.k.record('tool', 'shutdown', self.fd, how)

    def _do_close(self, gc=False):
        self.closed = True
        w = self.w
        if self.listening and self.bound in w.tool_listeners:
            del w.tool_listeners[self.bound]
        e = self.end
        if e is not None:
            e.rx.closed_reader = True
            if not e.sent_fin:
                if e.rx.buf and not e.rx.fin:
                    w.send_rst(e)   # closing with unread data resets the connection
                else:
                    w.send_fin(e)
            if e.conn.closed_at is None:
                e.conn.closed_at = w.k.now
        w.k.record('tool', 'close_gc' if gc else 'close', self.fd)

    def close(self):
        if self.closed:
            return
        self.w.k.tick()
        self._do_close()

    def detach(self):
        raise SimUnsupported('socket.detach')

    # ---------------------------------------------------------------- server side (client audits)
    def bind(self, addr):
        self._check_open()
        host, port = addr[0], int(addr[1])
        if not (0 <= port <= 65535):
            raise OverflowError('bind(): port must be 0-65535.')
        key = (host, port)
        if key in self.w.tool_listeners:
            raise OSError(errno.EADDRINUSE, 'Address already in use')
        fail = self.w.plan.get('world', {}).get('bind_fail', [])
        if host in fail:
            raise OSError(errno.EADDRNOTAVAIL, 'Cannot assign requested address')
        self.bound = key
        self.w.k.record('tool', 'bind', self.fd, host, port)

    def listen(self, backlog=128):
        self._check_open()
        if self.bound is None:
            raise OSError(errno.EINVAL, 'Invalid argument')
        self.listening = True
        self.w.tool_listeners[self.bound] = self
        self.w.k.record('tool', 'listen', self.fd)

    def accept(self):
        self._check_open()
        k = self.w.k
        k.yield_point()
        if not self.listening:
            raise OSError(errno.EINVAL, 'Invalid argument')
        if not self.pending:
            if self._timeout == 0.0:
                raise BlockingIOError(errno.EAGAIN, 'Resource temporarily unavailable')
            ok = k.block(lambda: bool(self.pending), self._tmo_us())
            if not ok:
                raise _socket.timeout('timed out')
        conn = self.pending.pop(0)
        s = SimSocket(self.w, int(self.family))
        s.end = conn.b
        conn.established = True
        k.record('tool', 'accept', self.fd, s.fd, conn.a.addr[0], conn.a.addr[1])
        self.w.peak_open = max(self.w.peak_open, self.w.open_tool_conns())
        addr = conn.a.addr if int(self.family) == AF_INET else (conn.a.addr[0], conn.a.addr[1], 0, 0)
        return s, addr


def sim_select(world, rlist, wlist, xlist, timeout=None):
    k = world.k
    k.yield_point()
    fdmap = None

    def resolve(x):
        nonlocal fdmap
        if isinstance(x, SimSocket):
            return x
        if isinstance(x, int):
            if fdmap is None:
                fdmap = {s.fd: s for s in world.live_sockets() if not s.closed}
            s = fdmap.get(x)
            if s is None:
                raise OSError(errno.EBADF, 'Bad file descriptor')
            return s
        if hasattr(x, 'fileno'):
            return resolve(x.fileno())
        raise SimUnsupported('select on %r' % (x,))

    rl = [(x, resolve(x)) for x in rlist]
    wl = [(x, resolve(x)) for x in wlist]
    _xl = [(x, resolve(x)) for x in xlist]
    for _, s in rl + wl + _xl:
        if s.closed:
            raise ValueError('file descriptor cannot be a negative integer (-1)')

    def writable(s):
        return s.end is not None and s.end.conn.established and not s.connecting or s.err is not None

    def any_ready():
        return any(s._readable() for _, s in rl) or any(writable(s) for _, s in wl)

    if not any_ready():
        tmo = None if timeout is None else int(float(timeout) * 1_000_000)
        if tmo is None and not rl and not wl:
            raise SimUnsupported('select with nothing to wait for and no timeout')
        if tmo != 0:
            k.block(any_ready, tmo)
    r = [x for x, s in rl if s._readable()]
    wr = [x for x, s in wl if writable(s)]
    k.record('tool', 'select', len(rl), len(r))
    return r, wr, []
