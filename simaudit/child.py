"""Entry point for fresh-interpreter runs: plan (pickle) on stdin, record (length-prefixed pickle) on stdout."""
import os
import pickle
import struct
import sys


def main():
    plan = pickle.loads(sys.stdin.buffer.read())
    out_fd = os.dup(1)
    os.dup2(2, 1)   # anything printed by accident goes to stderr, not into the record stream
    from . import runner
    runner._deliver_fd = None
    rec_holder = {}

    def deliver(rec):
        data = pickle.dumps(rec, protocol=4)
        off = 0
        while off < len(data):
            off += os.write(out_fd, data[off:off + 65536])
        os._exit(0)

    runner._deliver = deliver
    rec = runner.execute(plan)
    deliver(rec)


if __name__ == '__main__':
    main()
