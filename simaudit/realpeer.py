"""Conformance of the simulator with the real thing.

The same server scripts (simaudit.peers.SimSSHServer, with the same fault layer) are interpreted twice: once inside the
simulator, once over real loopback TCP sockets by the threads below, with the real ssh-audit.py started as a child process.
The tool's standard output and exit status must be the same in both worlds.  This is not a property check (nothing here is
seeded or scheduled); it is a self-test of the trusted base - the socket model in particular - run by
`./check selftest conformance`.  Loopback only, no network needed.
"""
import os
import socket
import struct
import subprocess
import sys
import threading
import time

from . import gen, peers, runner, wire
from .kernel import subrng
from .wire import WireError


class _StubKernel:
    now = 0

    def record(self, *a):
        pass


class _StubWorld:
    """What SimSSHServer touches of a World, without a simulator behind it."""

    def __init__(self, plan):
        self.k = _StubKernel()
        self.plan = plan
        self.listeners = {}
        self.last_x = None
        self.faults_fired = {}
        self.lock = threading.Lock()

    def fired(self, kind, n=1):
        with self.lock:
            self.faults_fired[kind] = self.faults_fired.get(kind, 0) + n


class _RealConn:
    """Runs one server script generator over one accepted socket (blocking, in its own thread)."""

    def __init__(self, world, sock, owner, ordinal):
        self.w = world
        self.sock = sock
        self.owner = owner
        self.ordinal = ordinal
        self.buf = bytearray()
        self.msg_idx = 0
        self.dead = False
        self.eof = False
        self.log = {'ordinal': ordinal, 'global': ordinal, 'opened': 0, 'tx': [], 'rx': [], 'frames': [], 'closed_by_peer_at': None,
                    'eof_seen': False, 'stage': 'open', 'script_error': None}

    # ---- reading
    def _fill(self):
        if self.eof:
            return False
        try:
            data = self.sock.recv(65536)
        except OSError:
            data = b''
        if not data:
            self.eof = True
            return False
        self.buf += data
        return True

    def _send(self, tag, data):
        idx = self.msg_idx
        self.msg_idx += 1
        faults = self.owner.faults_for(self.ordinal, tag, idx)
        rec = {'tag': tag, 'idx': idx, 'len': len(data), 'faults': []}
        self.log['tx'].append(rec)
        honest = bytes(data)
        delay, pre, after = 0, b'', None
        for f in faults:
            kind = f['kind']
            rec['faults'].append(kind)
            self.w.fired(kind)
            if kind == 'delay':
                delay += int(f.get('us', 1000))
            elif kind in ('truncate_close', 'truncate_stall', 'truncate_reset'):
                data = data[:int(f.get('off', 0))]
                after = kind
            elif kind == 'corrupt':
                off = int(f.get('off', 0))
                repl = bytes.fromhex(f['hex'])
                if off <= len(data):
                    data = data[:off] + repl + data[off + len(repl):]
            elif kind == 'replace':
                data = bytes.fromhex(f['hex'])
            elif kind == 'insert_before':
                pre += bytes.fromhex(f['hex'])
            elif kind == 'dup':
                data = data + data
            elif kind == 'drop':
                data = b''
            elif kind == 'close_before':
                data, after = b'', 'truncate_close'
            elif kind == 'garbage':
                rng = subrng(self.w.plan.get('seed', 0), 'garbage', self.ordinal, idx)
                data = bytes(rng.getrandbits(8) for _ in range(int(f.get('n', 32))))
            else:
                raise RuntimeError('unknown fault kind %r' % kind)
        rec['sent'] = len(pre) + len(data)
        rec['intact'] = bytes(pre + data) == honest
        if delay:
            time.sleep(delay / 1e6)
        out = pre + data
        try:
            if out:
                self.sock.sendall(out)
        except OSError:
            pass
        if after == 'truncate_close':
            self._close()
            self.dead = True
        elif after == 'truncate_reset':
            self._reset()
            self.dead = True
        elif after == 'truncate_stall':
            self.dead = True
            while self._fill():        # keep the connection open, say nothing more, until the tool goes away
                del self.buf[:]
            self._close()

    def _close(self):
        try:
            self.sock.close()
        except OSError:
            pass

    def _reset(self):
        try:
            self.sock.setsockopt(socket.SOL_SOCKET, socket.SO_LINGER, struct.pack('ii', 1, 0))
            self.sock.close()
        except OSError:
            pass

    def run(self, script):
        g = script(self)
        result, exc = None, None
        try:
            while True:
                try:
                    req = g.throw(exc) if exc is not None else g.send(result)
                except StopIteration:
                    break
                except peers.PeerEOF:
                    break
                except WireError as e:
                    self.log['script_error'] = str(e)
                    break
                result, exc = None, None
                op = req[0]
                if op == 'send':
                    self._send(req[1], req[2])
                    if self.dead:
                        return
                elif op == 'line':
                    while b'\n' not in self.buf:
                        if not self._fill():
                            break
                    i = self.buf.find(b'\n')
                    if i >= 0:
                        result = bytes(self.buf[:i + 1])
                        del self.buf[:i + 1]
                    else:
                        exc = peers.PeerEOF()
                elif op == 'packet':
                    while True:
                        try:
                            got = wire.parse_frame(self.buf)
                        except WireError as e:
                            self.log['frames'].append({'error': str(e)})
                            exc = e
                            break
                        if got is not None:
                            total, payload, info = got
                            del self.buf[:total]
                            info['type'] = payload[0] if payload else None
                            self.log['frames'].append(info)
                            result = payload
                            break
                        if not self._fill():
                            exc = peers.PeerEOF()
                            break
                elif op == 'packet1':
                    while True:
                        if len(self.buf) >= 4:
                            plen = struct.unpack('>I', bytes(self.buf[:4]))[0]
                            total = 4 + (8 - plen % 8) + plen
                            if plen <= 1 << 18 and len(self.buf) >= total:
                                result = bytes(self.buf[:total])
                                del self.buf[:total]
                                break
                        if not self._fill():
                            exc = peers.PeerEOF()
                            break
                elif op in ('eof', 'drain'):
                    while self._fill():
                        del self.buf[:]
                elif op == 'sleep':
                    time.sleep(req[1] / 1e6)
                elif op == 'close':
                    self._close()
                elif op == 'reset':
                    self._reset()
                else:
                    raise RuntimeError('bad peer request %r' % (req,))
        finally:
            self._close()


class RealServer:
    def __init__(self, plan):
        spec = plan['world']['servers'][0]
        self.world = _StubWorld(plan)
        self.model = peers.SimSSHServer(self.world, dict(spec, ip='127.0.0.1', port=0))
        self.ls = socket.socket()
        self.ls.setsockopt(socket.SOL_SOCKET, socket.SO_REUSEADDR, 1)
        self.ls.bind(('127.0.0.1', 0))
        self.ls.listen(64)
        self.port = self.ls.getsockname()[1]
        self.stop = False
        self.threads = []
        self.t = threading.Thread(target=self._accept_loop, daemon=True)
        self.t.start()

    def _accept_loop(self):
        n = 0
        self.ls.settimeout(0.2)
        while not self.stop:
            try:
                c, _ = self.ls.accept()
            except socket.timeout:
                continue
            except OSError:
                break
            verdict = self.model.admit() if hasattr(self.model, 'admit') else 'accept'
            if verdict != 'accept':
                # refusal / black hole after k connections cannot be produced on an accepted loopback socket: reset instead
                c.setsockopt(socket.SOL_SOCKET, socket.SO_LINGER, struct.pack('ii', 1, 0))
                c.close()
                continue
            ordinal = self.model.accepted
            self.model.accepted += 1
            rc = _RealConn(self.world, c, self.model, ordinal)
            th = threading.Thread(target=rc.run, args=(self.model.script,), daemon=True)
            th.start()
            self.threads.append(th)
            n += 1

    def close(self):
        self.stop = True
        try:
            self.ls.close()
        except OSError:
            pass


def real_run(plan, argv_opts, timeout=60):
    """Start the scripted server on a loopback port and the real tool against it."""
    srv = RealServer(plan)
    try:
        argv = [sys.executable, os.path.join(runner.REPO, 'ssh-audit.py')] + list(argv_opts) + ['127.0.0.1:%d' % srv.port]
        env = dict(os.environ, PYTHONPATH=os.path.join(runner.REPO, 'src'), PYTHONHASHSEED='0', COLUMNS='80')
        env.pop('NO_COLOR', None)
        r = subprocess.run(argv, capture_output=True, text=True, timeout=timeout, env=env)
        return {'status': r.returncode, 'stdout': r.stdout, 'stderr': r.stderr, 'port': srv.port}
    finally:
        srv.close()


def real_client_run(plan, argv_opts, timeout=60):
    """Client audit: start the real tool listening on a free loopback port, then connect the scripted client to it."""
    probe = socket.socket()
    probe.bind(('127.0.0.1', 0))
    port = probe.getsockname()[1]
    probe.close()
    argv = [sys.executable, os.path.join(runner.REPO, 'ssh-audit.py')] + list(argv_opts) + ['-c', '-p', str(port)]
    env = dict(os.environ, PYTHONPATH=os.path.join(runner.REPO, 'src'), PYTHONHASHSEED='0', COLUMNS='80')
    env.pop('NO_COLOR', None)
    proc = subprocess.Popen(argv, stdout=subprocess.PIPE, stderr=subprocess.PIPE, text=True, env=env)
    world = _StubWorld(plan)
    spec = plan['world']['clients'][0]
    model = object.__new__(peers.SimSSHClient)
    model.w, model.k, model.spec, model.name = world, world.k, spec, spec.get('name', 'client')
    model.p, model.faults, model.conns = spec['profile'], spec.get('faults', []), []
    model.log = {'name': model.name, 'connected': False, 'refused': 0, 'kexinits_rx': [], 'banners_rx': []}
    c = None
    for _ in range(200):
        try:
            c = socket.create_connection(('127.0.0.1', port), timeout=5)
            break
        except OSError:
            time.sleep(0.05)
    if c is not None:
        c.settimeout(None)
        th = threading.Thread(target=_RealConn(world, c, model, 0).run, args=(model.script,), daemon=True)
        th.start()
    try:
        out, err = proc.communicate(timeout=timeout)
    except subprocess.TimeoutExpired:
        proc.kill()
        out, err = proc.communicate()
    return {'status': proc.returncode, 'stdout': out, 'stderr': err, 'port': port}


SCENARIOS = []
CLIENT_SCENARIOS = []


def _scn(name, profile, opts=('-n',), faults=None, timeout=2, knobs=None):
    SCENARIOS.append({'name': name, 'profile': profile, 'opts': list(opts), 'faults': faults, 'timeout': timeout, 'knobs': knobs or {}})


def _build():
    rng = gen.case_rng(1, 'conformance')
    modern = gen.archetype('modern')
    modern['keys'] = gen.rand_keys(rng, modern['key'])
    old = gen.archetype('old')
    old['keys'] = gen.rand_keys(rng, old['key'])
    hard = gen.archetype('hardened')
    hard['keys'] = gen.rand_keys(rng, hard['key'])
    ssh1 = {'banner': 'SSH-1.5-OpenSSH_3.0', 'ssh2': False, 'ssh1': {'cmask': 0x48, 'amask': 0x0c, 'hkey_bits': 1024, 'skey_bits': 768}}
    _scn('modern', modern)
    _scn('modern-json', modern, opts=('-j',))
    _scn('old', old)
    _scn('hardened-verbose', hard, opts=('-n', '-v'))
    _scn('ssh1-only (two connections, reset after the version notice)', ssh1)
    _scn('ssh1-forced', ssh1, opts=('-n', '-1'))
    _scn('version-mismatch-only', {'banner': 'SSH-1.5-OpenSSH_3.0', 'ssh2': False, 'ssh1': None})
    _scn('pre-banner lines', dict(modern, pre=['Welcome', 'second line']))
    _scn('close before banner', dict(modern, admission={'mode': 'close', 'after': 0}))
    _scn('throttle from connection 2', dict(modern, admission={'mode': 'throttle', 'after': 2}))
    _scn('close instead of KEXINIT', modern, faults=[{'conn': 0, 'msg': 'kexinit', 'kind': 'close_before'}])
    _scn('KEXINIT truncated, close', modern, faults=[{'conn': 0, 'msg': 'kexinit', 'kind': 'truncate_close', 'off': 200}])
    _scn('KEXINIT truncated, reset', modern, faults=[{'conn': 0, 'msg': 'kexinit', 'kind': 'truncate_reset', 'off': 200}])
    _scn('KEXINIT then reset (probe connection)', modern, faults=[{'conn': 1, 'msg': 'kexinit', 'kind': 'truncate_reset', 'off': 10 ** 6}])
    _scn('KEXINIT stalls', modern, faults=[{'conn': 0, 'msg': 'kexinit', 'kind': 'truncate_stall', 'off': 30}], timeout=1)
    _scn('bad block size', modern, faults=[{'conn': 0, 'msg': 'kexinit', 'kind': 'corrupt', 'off': 0, 'hex': '00000131'}])
    _scn('garbage reply on a probe', modern, faults=[{'conn': 1, 'msg': 'reply', 'kind': 'garbage', 'n': 64}])
    _scn('reply closes (probe)', modern, faults=[{'conn': 2, 'msg': 'reply', 'kind': 'close_before'}])
    _scn('late reply (probe)', modern, faults=[{'conn': 1, 'msg': 'reply', 'kind': 'delay', 'us': 1_500_000}], timeout=1)
    _scn('debug packets before replies', modern, faults=[{'conn': '*', 'msg': m, 'kind': 'insert_before',
                                                         'hex': wire.frame(bytes([wire.MSG_DEBUG, 0]) + wire.sstr('dbg') + wire.sstr('')).hex()} for m in ('reply', 'group')])
    gexp = dict(old, kex=['diffie-hellman-group-exchange-sha256', 'diffie-hellman-group-exchange-sha1', 'diffie-hellman-group14-sha1'],
                gex={'sizes': [1024, 2048, 4096], 'style': 'strict'}, banner='SSH-2.0-Sim_1.0')
    _scn('gex strict {1024,2048,4096}', gexp)
    _scn('gex openssh fallback', dict(gexp, banner='SSH-2.0-OpenSSH_7.4', gex={'sizes': [3072, 4096], 'style': 'openssh', 'grp_min': 2048}))
    _scn('gex group garbled on one probe', gexp, faults=[{'conn': 6, 'msg': 'group', 'kind': 'corrupt', 'off': 6, 'hex': '00000000'}])
    long_lists = dict(modern)
    long_lists['enc'] = modern['enc'] + ['n%04d-' % j + 'x' * 100 + '@example.com' for j in range(300)]
    _scn('60 KiB of cipher names (probe KEXINITs echo them)', long_lists)
    _scn('policy audit', hard, opts=('-n', '-P', 'Hardened OpenSSH Server v9.9 (version 1)'))


def _build_clients():
    oc = {'banner': 'SSH-2.0-OpenSSH_9.6', 'kex': ['curve25519-sha256', 'diffie-hellman-group14-sha256', 'ext-info-c', 'kex-strict-c-v00@openssh.com'],
          'key': ['ssh-ed25519', 'rsa-sha2-512', 'ecdsa-sha2-nistp256'], 'enc': ['chacha20-poly1305@openssh.com', 'aes128-ctr', 'aes256-cbc'],
          'mac': ['hmac-sha2-256-etm@openssh.com', 'hmac-sha1'], 'comp': ['none', 'zlib@openssh.com']}
    putty = dict(oc, banner='SSH-2.0-PuTTY_Release_0.80', kex=['curve25519-sha256', 'diffie-hellman-group-exchange-sha256', 'diffie-hellman-group1-sha1'])
    CLIENT_SCENARIOS.append({'name': 'client: OpenSSH-like', 'profile': oc, 'opts': ['-n'], 'faults': None})
    CLIENT_SCENARIOS.append({'name': 'client: PuTTY, JSON', 'profile': putty, 'opts': ['-j'], 'faults': None})
    CLIENT_SCENARIOS.append({'name': 'client: directions differ', 'profile': dict(oc, enc_s2c=['aes256-gcm@openssh.com'], mac_s2c=['hmac-sha2-512']), 'opts': ['-n'], 'faults': None})
    CLIENT_SCENARIOS.append({'name': 'client: KEXINIT after our banner', 'profile': dict(oc, early_kexinit=False), 'opts': ['-n'], 'faults': None})
    CLIENT_SCENARIOS.append({'name': 'client: closes instead of KEXINIT', 'profile': oc, 'opts': ['-n'], 'faults': [{'msg': 'kexinit', 'kind': 'close_before'}]})
    CLIENT_SCENARIOS.append({'name': 'client: truncated KEXINIT, close', 'profile': oc, 'opts': ['-n'], 'faults': [{'msg': 'kexinit', 'kind': 'truncate_close', 'off': 100}]})
    CLIENT_SCENARIOS.append({'name': 'client: garbage instead of a banner', 'profile': oc, 'opts': ['-n'], 'faults': [{'msg': 'banner', 'kind': 'garbage', 'n': 40}]})


def conformance(verbose=True):
    runner.prepare()
    if not SCENARIOS:
        _build()
        _build_clients()
    bad = 0
    for sc in CLIENT_SCENARIOS:
        opts = list(sc['opts']) + ['-t', '4']
        planr = gen.client_plan(1, opts, sc['profile'], port=2222, faults=sc['faults'])
        planr['world']['clients'][0]['name'] = 'conformance'
        real = real_client_run(planr, opts)
        same = []
        results = {}
        for profile_name, kn in (('linux', {'rst_after_close': 1, 'rst_keeps_data': 1}), ('quiet', {'rst_after_close': 0, 'rst_keeps_data': 0})):
            for rtt in (2, 80, 120, 200):
                plan = gen.client_plan(1, opts + ['-c', '-p', str(real['port'])], sc['profile'], port=real['port'], faults=sc['faults'], net={'rtt_us': rtt},
                                       knobs=dict(cpu_cost=[20, 60], **kn))
                plan['world']['clients'][0]['name'] = 'conformance'
                plan['world']['clients'][0]['from'] = ['127.0.0.1', 50022]
                sim = runner.run_forked(plan)
                results['%s/%dus' % (profile_name, rtt)] = sim
                if sim.get('status') == real['status'] and sim.get('stdout') == real['stdout']:
                    same.append('%s/%dus' % (profile_name, rtt))
        if verbose:
            print('%-62s real status %s  reproduced by: %s' % (sc['name'][:62], real['status'], ', '.join(same) if same else 'NO CONFIGURATION'))
        if not same:
            bad += 1
            sim = results['linux/2us']
            a, b = real['stdout'].split('\n'), (sim.get('stdout') or '').split('\n')
            for i in range(max(len(a), len(b))):
                x = a[i] if i < len(a) else '<end>'
                y = b[i] if i < len(b) else '<end>'
                if x != y:
                    print('    first difference at line %d:\n      real: %s\n      sim:  %s' % (i + 1, x[:200], y[:200]))
                    break
            print('    status real %s sim %s; stderr real %r' % (real['status'], sim.get('status'), real['stderr'][-200:]))
    for sc in SCENARIOS:
        opts = list(sc['opts']) + ['--skip-rate-test', '-t', str(sc['timeout'])]
        # the real world first (it chooses the port), then the simulated one with the same address
        planr = gen.server_plan(1, opts + ['x'], sc['profile'], ip='127.0.0.1', port=2222, faults=sc['faults'], knobs=dict(sc['knobs']))
        planr['world']['servers'][0]['name'] = 'conformance'     # key material and cookies are derived from the server's name
        real = real_run(planr, opts)
        target = '127.0.0.1:%d' % real['port']
        results = {}
        for profile_name, kn in (('linux', {'rst_after_close': 1, 'rst_keeps_data': 1}), ('quiet', {'rst_after_close': 0, 'rst_keeps_data': 0})):
            for rtt in (2, 80, 120, 200):
                # loopback latency is a few microseconds, far below the time the tool needs between two calls; which of a FIN and the
                # reset that follows it the tool meets first is a race in the real world, so a second latency is tried as well
                plan = gen.server_plan(1, opts + [target], sc['profile'], host='loopback.sim', ip='127.0.0.1', port=real['port'], faults=sc['faults'],
                                       net={'rtt_us': rtt}, knobs=dict(sc['knobs'], cpu_cost=[20, 60], **kn))
                plan['world']['servers'][0]['name'] = 'conformance'
                results['%s/%dus' % (profile_name, rtt)] = runner.run_forked(plan)
        same = [name for name, sim in results.items() if sim.get('status') == real['status'] and sim.get('stdout') == real['stdout']]
        if verbose:
            print('%-62s real status %s  reproduced by: %s' % (sc['name'][:62], real['status'], ', '.join(same) if same else 'NO CONFIGURATION'))
        if not same:
            bad += 1
            sim = results['linux/2us']
            a, b = real['stdout'].split('\n'), (sim.get('stdout') or '').split('\n')
            for i in range(max(len(a), len(b))):
                x = a[i] if i < len(a) else '<end>'
                y = b[i] if i < len(b) else '<end>'
                if x != y:
                    print('    first difference at line %d:\n      real: %s\n      sim:  %s' % (i + 1, x[:200], y[:200]))
                    break
            if sim.get('status') != real['status']:
                print('    status real %s sim %s; sim harness_error=%r' % (real['status'], sim.get('status'), sim.get('harness_error')))
    print('conformance: %d scenarios run over real loopback sockets; %d of them reproduced by no simulator configuration (socket profile x latency)' % (len(SCENARIOS) + len(CLIENT_SCENARIOS), bad))
    return 0 if bad == 0 else 1
