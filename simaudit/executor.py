"""ThreadPoolExecutor model.  The *algorithm* is transcribed from CPython 3.12 concurrent/futures/thread.py
(FIFO work queue; worker: get_nowait -> release idle semaphore -> blocking get; submit spawns a thread only if
no idle worker and len(threads) < max_workers; BaseException from a work item is stored on the future and
re-raised by result()); the *scheduling* of workers is the kernel's."""
import os

PENDING, RUNNING, FINISHED, CANCELLED = 'PENDING', 'RUNNING', 'FINISHED', 'CANCELLED'


class SimFuture:
    def __init__(self, world, seq):
        self._w = world
        self._state = PENDING
        self._result = None
        self._exception = None
        self._callbacks = []
        self.seq = seq
        self.done_seq = None

    def __hash__(self):
        return self.seq

    def __eq__(self, other):
        return self is other

    def done(self):
        return self._state in (FINISHED, CANCELLED)

    def running(self):
        return self._state == RUNNING

    def cancelled(self):
        return self._state == CANCELLED

    def cancel(self):
        if self._state in (RUNNING, FINISHED):
            return False
        self._state = CANCELLED
        self._w.exec_done_counter += 1
        self.done_seq = self._w.exec_done_counter
        return True

    def add_done_callback(self, fn):
        if self.done():
            fn(self)
        else:
            self._callbacks.append(fn)

    def _finish(self):
        self._w.exec_done_counter += 1
        self.done_seq = self._w.exec_done_counter
        for cb in self._callbacks:
            try:
                cb(self)
            except Exception:
                pass

    def set_result(self, r):
        self._result = r
        self._state = FINISHED
        self._finish()

    def set_exception(self, e):
        self._exception = e
        self._state = FINISHED
        self._finish()

    def _wait(self, timeout):
        k = self._w.k
        k.tick()
        if not self.done():
            ok = k.block(self.done, None if timeout is None else int(timeout * 1_000_000))
            if not ok:
                raise TimeoutError()

    def result(self, timeout=None):
        self._wait(timeout)
        if self._state == CANCELLED:
            import concurrent.futures
            raise concurrent.futures.CancelledError()
        if self._exception is not None:
            try:
                raise self._exception
            finally:
                self = None
        return self._result

    def exception(self, timeout=None):
        self._wait(timeout)
        return self._exception


class SimThreadPoolExecutor:
    def __init__(self, world, max_workers=None, thread_name_prefix='', initializer=None, initargs=()):
        if max_workers is None:
            max_workers = min(32, (os.cpu_count() or 1) + 4)
        if max_workers <= 0:
            raise ValueError('max_workers must be greater than 0')
        self._w = world
        self._k = world.k
        self._max_workers = max_workers
        self._queue = []
        self._idle = 0               # idle semaphore value
        self._workers = []           # kernel tasks
        self._shutdown = False
        self._initializer = initializer
        self._initargs = initargs
        world.executors.append(self)
        self.assignments = []        # (worker index, future seq) in start order

    def __enter__(self):
        return self

    def __exit__(self, exc_type, exc, tb):
        self.shutdown(wait=True)
        return False

    def submit(self, fn, /, *args, **kwargs):
        if self._shutdown:
            raise RuntimeError('cannot schedule new futures after shutdown')
        self._k.yield_point()
        w = self._w
        w.exec_future_counter += 1
        f = SimFuture(w, w.exec_future_counter)
        self._queue.append((f, fn, args, kwargs))
        self._k.record('exec', 'submit', f.seq)
        self._adjust_thread_count()
        return f

    def map(self, fn, *iterables, timeout=None, chunksize=1):
        fs = [self.submit(fn, *args) for args in zip(*iterables)]

        def gen():
            for f in fs:
                yield f.result(timeout)
        return gen()

    def _adjust_thread_count(self):
        if self._idle > 0:
            self._idle -= 1
            return
        n = len(self._workers)
        if n < self._max_workers:
            idx = n
            task = self._k.spawn('worker-%d' % idx, lambda: self._worker(idx))
            self._workers.append(task)
            self._k.record('exec', 'spawn', idx)

    def _worker(self, idx):
        k = self._k
        if self._initializer is not None:
            self._initializer(*self._initargs)
        while True:
            if self._queue:
                item = self._queue.pop(0)
            else:
                self._idle += 1
                k.block(lambda: bool(self._queue), None)
                item = self._queue.pop(0)
            if item is not None:
                f, fn, args, kwargs = item
                if f._state == CANCELLED:
                    continue
                f._state = RUNNING
                self.assignments.append((idx, f.seq))
                k.record('exec', 'run', idx, f.seq)
                try:
                    result = fn(*args, **kwargs)
                except BaseException as exc:   # noqa: B902 - CPython stores BaseException on the future
                    if type(exc).__name__ == 'SimAbort':
                        raise
                    f.set_exception(exc)
                else:
                    f.set_result(result)
                k.record('exec', 'done', idx, f.seq)
                del item
                k.yield_point()
                continue
            if self._shutdown:
                self._queue.append(None)   # notice other workers
                return

    def shutdown(self, wait=True, *, cancel_futures=False):
        self._k.yield_point()
        self._shutdown = True
        if cancel_futures:
            keep = []
            for item in self._queue:
                if item is not None:
                    item[0].cancel()
            self._queue[:] = keep
        self._queue.append(None)
        if wait:
            self._k.block(lambda: all(not t.alive for t in self._workers), None)


def sim_as_completed(world, fs, timeout=None):
    k = world.k
    fs = list(dict.fromkeys(fs))       # CPython: set(fs); order of the already-finished ones is arbitrary there
    k.tick()
    finished = [f for f in fs if f.done()]
    pending = [f for f in fs if not f.done()]
    # CPython yields the initially-finished set in set order (arbitrary): take a seeded order
    rng = world.misc_rng
    rng.shuffle(finished)
    for f in finished:
        yield f
    seen = 0
    end = None if timeout is None else k.now + int(timeout * 1_000_000)      # CPython: one deadline for the whole iteration
    while pending:
        ok = k.block(lambda: any(f.done() for f in pending), None if end is None else max(0, end - k.now))
        if not ok:
            raise TimeoutError('%d (of %d) futures unfinished' % (len(pending), len(fs)))
        newly = sorted((f for f in pending if f.done()), key=lambda f: f.done_seq)
        pending = [f for f in pending if not f.done()]
        for f in newly:
            seen += 1
            yield f


def sim_wait(world, fs, timeout=None, return_when='ALL_COMPLETED'):
    k = world.k
    fs = list(dict.fromkeys(fs))
    k.tick()

    def cond():
        done = [f for f in fs if f.done()]
        if return_when == 'FIRST_COMPLETED':
            return bool(done)
        if return_when == 'FIRST_EXCEPTION':
            return any(f._exception is not None for f in done) or len(done) == len(fs)
        return len(done) == len(fs)

    k.block(cond, None if timeout is None else int(timeout * 1_000_000))
    import collections
    DoneAndNotDone = collections.namedtuple('DoneAndNotDoneFutures', 'done not_done')
    return DoneAndNotDone(set(f for f in fs if f.done()), set(f for f in fs if not f.done()))
