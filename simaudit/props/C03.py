"""C03 - an algorithm's rating depends only on the algorithm, in every view."""
import copy

from .. import gen, report, wire, refmodels
from . import multi
from .common import viol, h, compact_case, CATS

ID = 'C03'
CLAIM = ('for every database name (and gss-* instantiations, and unknown names) the same algorithm is audited alone, at a seeded position among seeded neighbours, in server and in '
         'client role, as text and as JSON, as the second target of a two-target invocation whose first target earns every context note, and looked up with --lookup; the (level, note) multiset must be identical in all views and equal to the database entry read as data. '
         'Workload only: no schedule or fault of its own; views/roles are end-to-end paths through the simulated network')
TRUST = ('trusted base: MASTER_DB of the tree under test is the specification (read as data); an independent rendering of the "available since" text; peers without key material and '
         'with a refusing GEX policy so that no measured attribute (size) is involved; the strict-kex marker is always advertised so that no Terrapin warning is involved')
TECHNIQUE = 'deterministic simulation as the end-to-end observation point; cross-view history invariant; database-as-data reference'
LEVEL = 'exploration'
BUDGET = {'quick': 200, 'thorough': 2400}
RULE = ('one case per database name (quick: 1 neighbour set; thorough: 6 neighbour sets and every gss prefix x 8 suffixes), plus unknown names. non-trivial: the name appeared in >= 2 '
        'views that reached the report; distinct by (category, name, position bucket).')
ASSUMPTIONS = ['size notes and Terrapin notes are kept out by construction (no key material, refusing GEX policy, marker advertised)']

PRODUCT = {'': 'OpenSSH', 'd': 'Dropbear SSH', 'l1': 'libssh'}


from .common import since_text, reference  # noqa: E402,F401


def cases(seed, tier):
    reps = 1 if tier == 'quick' else 6
    i = 0
    for cat in CATS:
        for name in gen.db_names(cat):
            for r in range(reps):
                rng = gen.case_rng(seed, ID, cat, name, r)
                shown = name
                if name.endswith('-*'):
                    shown = gen.gss_name(rng, prefix=name[:-2], force_chars=rng.random() < 0.5)
                yield mk(rng, cat, name, shown)
            if name.endswith('-*') and tier == 'thorough':
                for r in range(8):
                    rng = gen.case_rng(seed, ID, cat, name, 'gss', r)
                    yield mk(rng, cat, name, gen.gss_name(rng, prefix=name[:-2], force_chars=True))
    for j in range(40 if tier == 'quick' else 400):
        rng = gen.case_rng(seed, ID, 'unknown', j)
        cat = rng.choice(CATS)
        yield mk(rng, cat, None, gen.unknown_name(rng, cat))


def mk(rng, cat, dbname, shown):
    pool = [n for n in gen.db_names(cat) if n != dbname and not n.endswith('-*') and 'kex-strict' not in n]
    neigh = rng.sample(pool, min(len(pool), rng.randrange(2, 7)))
    pos = rng.randrange(len(neigh) + 1)
    return {'cat': cat, 'dbname': dbname, 'name': shown, 'neigh': neigh, 'pos': pos, 'opts': rng.choice([['-n'], ['-n', '-b'], ['-n', '-v'], []]), 'pseed': rng.getrandbits(32)}


def sample(case):
    return compact_case(case)


def profile(case, alone, role):
    cat, name = case['cat'], case['name']
    p = {'banner': 'SSH-2.0-Sim_1.0', 'kex': ['made-up-safe-kex@example.com'], 'key': ['made-up-safe-key@example.com'], 'enc': ['aes128-ctr'], 'mac': ['hmac-sha2-256'],
         'comp': ['none'], 'keys': {}, 'gex': {'sizes': [], 'style': 'strict'}}
    lst = [name] if alone else case['neigh'][:case['pos']] + [name] + case['neigh'][case['pos']:]
    if cat == 'kex':
        p['kex'] = lst
    else:
        p[cat] = lst
    p['kex'] = p['kex'] + [refmodels.MARKER[role]]
    return p


def notes_text(stdout, cat, name, verbose):
    tr = report.TextReport(stdout, verbose=verbose)
    ents = [e for e in tr.algs[cat] if e['name'] == name]
    if not ents:
        return None, tr
    return sorted((lv, t) for lv, t in ents[0]['notes']), tr


def run_case(case, ctx):
    out, keys = [], []
    cat, name, dbname = case['cat'], case['name'], case['dbname']
    verbose = '-v' in case['opts']
    views = {}
    plans = {
        'alone': gen.server_plan(case['pseed'], list(case['opts']) + ['--skip-rate-test', '-t', '2', 'srv.example:2222'], profile(case, True, 'server'), port=2222),
        'among': gen.server_plan(case['pseed'], list(case['opts']) + ['--skip-rate-test', '-t', '2', 'srv.example:2222'], profile(case, False, 'server'), port=2222),
        'client': gen.client_plan(case['pseed'], list(case['opts']) + ['-c', '-p', '2222', '-t', '4'], profile(case, False, 'client'), port=2222),
        'json': gen.server_plan(case['pseed'], ['-j', '--skip-rate-test', '-t', '2', 'srv.example:2222'], profile(case, False, 'server'), port=2222),
    }
    if cat == 'key' and name not in gen.RSA_FAMILY and '-cert-' not in name:
        # beside a 2048-bit RSA host key and a small-CA certificate (both measured, both earning size notes): the notes of
        # this key type must still be the database's - plus nothing
        pk = profile(case, False, 'server')
        pk['kex'] = ['curve25519-sha256'] + pk['kex']
        pk['key'] = ['rsa-sha2-256', 'ssh-rsa-cert-v01@openssh.com'] + [x for x in pk['key'] if x not in ('rsa-sha2-256', 'ssh-rsa-cert-v01@openssh.com')]
        pk['keys'] = {'ssh-rsa': {'bits': 2048}, 'ssh-rsa-cert-v01@openssh.com': {'bits': 1024, 'ca_type': 'ssh-rsa', 'ca_bits': 1024}}
        if name in gen.KEY_SPECS:
            pk['keys'][name] = {}
        plans['beside_measured_keys'] = gen.server_plan(case['pseed'], list(case['opts']) + ['--skip-rate-test', '-t', '2', 'srv.example:2222'], pk, port=2222)
    if dbname is None:
        # the same unknown name in a second category and twice in its own list: every occurrence must be rated alike
        other = {'kex': 'key', 'key': 'enc', 'enc': 'mac', 'mac': 'enc'}[cat]
        ptwice = profile(case, False, 'server')
        ptwice[other] = ptwice[other] + [name]
        ptwice[cat] = ptwice[cat] + [name]
        plans['twice'] = gen.server_plan(case['pseed'], list(case['opts']) + ['--skip-rate-test', '-t', '2', 'srv.example:2222'], ptwice, port=2222)
    pdup = profile(case, False, 'server')
    tgt = 'kex' if cat == 'kex' else cat
    pdup[tgt] = pdup[tgt][:1] + [name] + pdup[tgt][1:] if name not in pdup[tgt][:1] else pdup[tgt] + [name]
    plans['json_dup'] = gen.server_plan(case['pseed'], ['-j', '--skip-rate-test', '-t', '2', 'srv.example:2222'], pdup, port=2222)
    # audited second by the one worker thread of a two-target invocation, after a target that earns every kind of context note
    # (no strict-kex marker, ChaCha20 / CBC / ETM, 1024-bit RSA key, 1024-bit group exchange) and lists the same name
    noisy = {'banner': 'SSH-2.0-Sim_1.0', 'kex': ['diffie-hellman-group-exchange-sha256', 'curve25519-sha256'], 'key': ['ssh-rsa', 'rsa-sha2-256', 'ssh-ed25519'],
             'enc': ['chacha20-poly1305@openssh.com', 'aes128-cbc', 'aes128-ctr'], 'mac': ['hmac-sha2-256-etm@openssh.com', 'hmac-sha1'], 'comp': ['none'],
             'keys': {'ssh-rsa': {'bits': 1024}, 'ssh-ed25519': {}}, 'gex': {'sizes': [1024], 'style': 'strict'}}
    if name not in noisy[cat]:
        noisy[cat] = noisy[cat] + [name]
    two = [{'kind': 'server', 'host': 'noisy.example', 'ip': '192.0.2.9', 'port': 2222, 'profile': noisy},
           {'kind': 'server', 'host': 'srv.example', 'ip': '192.0.2.10', 'port': 2222, 'profile': profile(case, False, 'server')}]
    plans['after_other_target'] = multi.multi_plan({'targets': two, 'pseed': case['pseed'], 'sched': {'policy': 'run_to_block', 'seed': 0}}, list(case['opts']), 1, ctx.scratch())
    lookup_name = name      # the name as the peer advertises it (for gss-* key exchanges the concrete name, not the database's wildcard entry)
    plans['lookup'] = {'seed': case['pseed'], 'argv': ['-n', '--lookup', lookup_name], 'world': {}}
    for vname, plan in plans.items():
        rec = ctx.run(plan)
        if rec.get('harness_error'):
            return {'violations': [], 'keys': []}
        if vname in ('json', 'json_dup'):
            doc, err = report.parse_json(rec['stdout'])
            if not isinstance(doc, dict):
                out.append(viol('C03 json view unparsable', rec['stdout'][:300]))
                continue
            ents = [e for e in doc.get(cat, []) if e['algorithm'] == name]
            if not ents:
                out.append(viol('C03 name missing from the %s view' % vname, 'cat=%s name=%s' % (cat, name)))
                continue
            views[vname] = sorted((lv, t) for lv in ('fail', 'warn', 'info') for t in ents[0]['notes'].get(lv, []))
            if vname == 'json_dup' and len(ents) >= 2:
                # the same name listed twice: the second occurrence must be rated like the first
                views['json_dup_2nd'] = sorted((lv, t) for lv in ('fail', 'warn', 'info') for t in ents[-1]['notes'].get(lv, []))
        elif vname == 'lookup':
            tr = report.TextReport(rec['stdout'])
            ents = [e for e in tr.algs[cat] if e['name'] == lookup_name]
            if dbname is None:
                if '# unknown algorithms' not in report.strip_ansi(rec['stdout']) or ents:
                    out.append(viol('C03 --lookup does not flag an unknown name as unknown', rec['stdout'][:400]))
                continue
            if not ents:
                out.append(viol('C03 --lookup does not show the name', 'cat=%s name=%s\n%s' % (cat, lookup_name, rec['stdout'][:400])))
                continue
            views[vname] = sorted((lv, t) for lv, t in ents[0]['notes'])
        else:
            if rec['status'] not in (0, 2, 3):
                out.append(viol('C03 audit failed in the %s view (status %s)' % (vname, rec['status']), rec['stdout'][-500:]))
                continue
            text = rec['stdout']
            if vname == 'after_other_target':
                mine = [b for b in multi.split_text_blocks(text) if multi.block_target(b, two) == 1]
                if len(mine) != 1:
                    out.append(viol('C03 no report block for the second target', text[-500:]))
                    continue
                text = mine[0]
            notes, tr = notes_text(text, cat, name, verbose)
            if vname == 'twice':
                other = {'kex': 'key', 'key': 'enc', 'enc': 'mac', 'mac': 'enc'}[cat]
                occ = [e for e in tr.algs[cat] if e['name'] == name] + [e for e in tr.algs[other] if e['name'] == name]
                if len(occ) != 3:
                    out.append(viol('C03 an unknown name listed several times is not rated at every occurrence', 'cat=%s name=%s occurrences shown %d of 3' % (cat, name, len(occ))))
                elif any(sorted(e['notes']) != sorted(occ[0]['notes']) for e in occ):
                    out.append(viol('C03 occurrences of the same unknown name are rated differently', repr([e['notes'] for e in occ])))
            if notes is None:
                out.append(viol('C03 name missing from the %s view' % vname, 'cat=%s name=%s' % (cat, name)))
                continue
            views[vname] = notes
    if dbname is None:
        for vname, notes in views.items():
            if not any('unknown' in t for _, t in notes):
                out.append(viol('C03 unknown name not flagged as unknown in the %s view' % vname, 'cat=%s name=%s notes=%r' % (cat, name, notes)))
            if not [lv for lv, _ in notes if lv in ('fail', 'warn')]:
                out.append(viol('C03 unknown name presented without a warning/failure in the %s view' % vname, 'cat=%s name=%s notes=%r' % (cat, name, notes)))
        # "they do not change ... with the output format": the severity an unknown name is given is the same in every view
        sev = {vname: tuple(sorted({lv for lv, _ in notes if lv in ('fail', 'warn')})) for vname, notes in views.items()}
        if len(set(sev.values())) > 1:
            out.append(viol('C03 an unknown name is rated at different levels in different views', 'cat=%s name=%s levels by view: %r' % (cat, name, sev)))
    else:
        ref = reference(cat, dbname)
        for vname, notes in views.items():
            if notes != ref:
                only_v = [x for x in notes if notes.count(x) > ref.count(x)]
                only_r = [x for x in ref if ref.count(x) > notes.count(x)]
                gss = ' (gss-*)' if dbname.endswith('-*') else ''
                out.append(viol('C03 notes in the %s view differ from the database entry%s' % (vname, gss),
                                'cat=%s name=%s (db key %s) pos=%d neighbours=%r\nonly in view: %r\nonly in database: %r' % (cat, name, dbname, case['pos'], case['neigh'], only_v, only_r)))
    if len(views) >= 2:
        keys.append(h(cat, name if dbname is None else dbname, min(case['pos'], 3)))
    return {'violations': out, 'keys': keys, 'counters': {'cat_' + cat: 1}}


def shrink(case):
    if case['neigh']:
        for i in range(len(case['neigh'])):
            c = copy.deepcopy(case)
            del c['neigh'][i]
            c['pos'] = min(c['pos'], len(c['neigh']))
            yield c
    if case['opts'] != ['-n']:
        c = copy.deepcopy(case)
        c['opts'] = ['-n']
        yield c
