"""C14 - software versions are ordered numerically, component by component (the part observable through a run)."""
import copy
import json
import re

from .. import gen, report, wire, refmodels
from .common import viol, h, compact_case, CATS
from . import C13 as c13
from . import multi as mt

ID = 'C14'
CLAIM = ('decided in part. Banners of OpenSSH / Dropbear / libssh at versions with 2-4 components drawn from {0..12, 99..101, year-like} (so with multi-digit components) and product '
         'patch suffixes are audited; the set of algorithms recommended for addition, the completeness of the removal recommendations and the "(gen) compatibility" range must equal '
         'those computed with component-wise numeric comparison against the database\'s version strings. NOT decided here: antisymmetry / transitivity of the comparison over arbitrary '
         'pairs and triples is a pure function of two strings and never meets a schedule, clock, fault or peer; only (banner version, database version) pairs occur in a run')
TRUST = ('trusted base: numeric version comparison in simaudit.refmodels; MASTER_DB as data; the exact addition set additionally relies on the documented exclusions (certificate / '
         'security-key / pseudo algorithms, algorithms rated fail or warn, and not-advertised ChaCha/CBC/ETM algorithms suppressed by the Terrapin rule)')
TECHNIQUE = 'deterministic simulation as the end-to-end observation point; reference model with numeric version order'
LEVEL = 'exploration'
BUDGET = {'quick': 200, 'thorough': 2400}
NCASES = {'quick': 1500, 'thorough': 9000}
RULE = ('cases: (product, version with 2-4 components, patch suffix) x a seeded advertised set; a fifth of them audited as the second target of one invocation, after the same product at another version. non-trivial: banner version with >= 2 components that the tool recognised; distinct '
        'by (product, version, patch).')
ASSUMPTIONS = ['a banner whose version the tool does not recognise as a product release (no "(gen) software:" line) is not judged']

COMP = list(range(0, 13)) + [99, 100, 101]
YEARS = list(range(2011, 2027))


def rand_version(rng, product):
    n = rng.choice([2, 2, 2, 3, 3, 4])
    if product == 'Dropbear SSH' and rng.random() < 0.7:
        return '%d.%d' % (rng.choice(YEARS), rng.choice([0, 5, 56, 62, 66, 78, 79, 83, 99, 100]))
    if product == 'libssh':
        return '.'.join(str(x) for x in [0] + [rng.choice(COMP) for _ in range(n - 1)])
    if product == 'OpenSSH' and rng.random() < 0.5:
        return '%d.%d' % (rng.choice([6, 7, 8, 9, 10, 11, 12]), rng.choice([0, 1, 2, 5, 9, 10]))
    comps = [rng.choice(COMP) for _ in range(n)]
    if rng.random() < 0.15:
        comps[rng.randrange(1, n)] = rng.choice(YEARS + [255, 256, 257, 1000])      # a year-like / large component that is not the first
    return '.'.join(str(x) for x in comps)


def cases(seed, tier):
    for i in range(NCASES[tier]):
        rng = gen.case_rng(seed, ID, i)
        product = rng.choice(['OpenSSH', 'OpenSSH', 'Dropbear SSH', 'libssh'])
        version = rand_version(rng, product)
        patch = ''
        if product == 'OpenSSH':
            patch = rng.choice(['', 'p1', 'p2', 'p1 Ubuntu-3ubuntu0.1', ' FreeBSD-20240806'])
            rp = gen.case_rng(seed, ID, i, 'patch')
            if rp.random() < 0.2:
                # patch levels as they are found in the wild: several digits, vendor text glued to the level (HPN builds)
                patch = rp.choice(['p1-hpn14v14', 'p2-hpn14v14', 'p1-hpn13v11', 'p10', 'p1-gssapi', 'p1+x509-13.2'])
            if rp.random() < 0.3:
                # the very release in which some algorithm appeared ("at least the version in which the database says it appeared")
                version = rp.choice(['7.2', '6.5', '5.7', '6.2', '7.3', '8.5', '9.0', '8.2', '6.7', '9.9'])
            banner = 'SSH-2.0-OpenSSH_%s%s' % (version, patch)
        elif product == 'Dropbear SSH':
            banner = 'SSH-2.0-dropbear_%s' % version
        else:
            banner = rng.choice(['SSH-2.0-libssh-%s', 'SSH-2.0-libssh_%s']) % version
        prof = {'banner': banner, 'comp': ['none'], 'keys': {}}
        for cat in CATS:
            pool = [n for n in gen.db_names(cat) if not n.endswith('-*')]
            prof[cat] = rng.sample(pool, rng.randrange(1, 6))
        if rng.random() < 0.5:
            prof['kex'].append('kex-strict-s-v00@openssh.com')
        prof['gex'] = {'sizes': [], 'style': 'strict'}
        c = {'product': product, 'version': version, 'patch': patch, 'profile': prof, 'opts': rng.choice([['-n'], ['-j'], ['-n', '-b']]), 'pseed': rng.getrandbits(32)}
        r2 = gen.case_rng(seed, ID, i, 'after')
        if r2.random() < 0.2:
            # the same server audited as the second target of one invocation, after a server of the same product at another version:
            # what counts as available is a matter of this server's version only
            v2 = rand_version(r2, product)
            # (the version is the part after the product name: replace its last occurrence, not a "2.0" inside "SSH-2.0-")
            c['after'] = (banner[::-1].replace(version[::-1], v2[::-1], 1)[::-1]) if v2 != version else None
        yield c


def sample(case):
    return compact_case(case)


def expected_additions(prof, product, version):
    adv = {cat: [wire.shown(x) for x in prof[cat]] for cat in CATS}
    out = set()
    for cat in CATS:
        for n, desc in gen.db()['ssh2'][cat].items():
            if n in adv[cat]:
                continue
            if (len(desc) > 1 and desc[1]) or (len(desc) > 2 and desc[2]):
                continue
            if cat == 'key' and ('-cert-' in n or n.startswith('sk-')):
                continue
            if cat == 'kex' and (n.startswith('ext-info-') or n.startswith('kex-strict-')):
                continue
            if not desc[0] or not desc[0][0]:
                continue
            if not c13.available(desc[0][0], product, version):
                continue
            if cat == 'enc' and (refmodels.is_chacha(n) or refmodels.is_cbc(n)):
                continue
            if cat == 'mac' and refmodels.is_etm(n):
                continue
            out.add((cat, n))
    return out


def expected_compat(prof):
    """Reference for the '(gen) compatibility' text with numeric min/max."""
    frm, till = {}, {}

    def upd(store, field, pick_max):
        per = {}
        for v in (field or '').split(','):
            cli = v.endswith('C')
            if cli:
                v = v[:-1]
            if v.startswith('d'):
                p, ver = 'Dropbear SSH', v[1:]
            elif v.startswith('l1'):
                p, ver = 'libssh', v[2:]
            else:
                p, ver = 'OpenSSH', v
            if not ver or cli:
                continue
            per[p] = ver
        for p, ver in per.items():
            seen.add(p)
            prev = store.get(p)
            if prev is None or (pick_max and refmodels.cmp_numeric(ver, prev) > 0) or (not pick_max and refmodels.cmp_numeric(ver, prev) < 0):
                store[p] = ver
    seen = set()
    for cat in CATS:
        for name in prof[cat]:
            desc = gen.db()['ssh2'][cat].get(wire.shown(name))
            if desc is None:
                continue
            vs = desc[0]
            if len(vs) > 0:
                upd(frm, vs[0], True)
            if len(vs) > 1:
                upd(till, vs[1], False)
    parts = []
    for p in ('OpenSSH', 'Dropbear SSH'):
        if p not in seen or p not in frm:
            continue
        f, t = frm[p], till.get(p)
        if t is None:
            parts.append('%s %s+' % (p, f))
        elif f == t:
            parts.append('%s %s' % (p, f))
        elif refmodels.cmp_numeric(f, t) > 0:
            parts.append('%s %s+ (some functionality from %s)' % (p, f, t))
        else:
            parts.append('%s %s-%s' % (p, f, t))
    return ', '.join(parts) if parts else None


def run_case(case, ctx):
    out, keys = [], []
    prof, product, version = case['profile'], case['product'], case['version']
    isjson = '-j' in case['opts']
    if case.get('after'):
        other = copy.deepcopy(prof)
        other['banner'] = case['after']
        two = [{'kind': 'server', 'host': 'other.example', 'ip': '192.0.2.9', 'port': 2222, 'profile': other},
               {'kind': 'server', 'host': 'srv.example', 'ip': '192.0.2.10', 'port': 2222, 'profile': prof}]
        rec = ctx.run(mt.multi_plan({'targets': two, 'pseed': case['pseed'], 'sched': {'policy': 'run_to_block', 'seed': 0}}, list(case['opts']), 1, ctx.scratch()))
        if rec.get('harness_error'):
            return {'violations': [], 'keys': []}
        mine = None
        if isjson:
            doc, err = report.parse_json(rec['stdout'])
            for d in doc if isinstance(doc, list) else []:
                if mt.json_target(d, two) == 1:
                    mine = json.dumps(d)
        else:
            for b in re.split(r'(?m)^-{80}$', rec['stdout']):
                if mt.block_target(report.strip_ansi(b), two) == 1:
                    mine = b
        if mine is None:
            return {'violations': [viol('C14 no result for the second target', rec['stdout'][-400:])], 'keys': []}
        rec = dict(rec, stdout=mine)
    else:
        rec = ctx.run(gen.server_plan(case['pseed'], list(case['opts']) + ['--skip-rate-test', '-t', '2', 'srv.example:2222'], prof, port=2222))
    if rec.get('harness_error'):
        return {'violations': [], 'keys': []}
    if rec['status'] not in (0, 2, 3):
        out.append(viol('C14 audit failed (status %s)' % rec['status'], rec['stdout'][-500:]))
        return {'violations': out, 'keys': []}
    got = c13.collect(case, rec, isjson)
    if got is None:
        out.append(viol('C14 json unparsable', rec['stdout'][:300]))
        return {'violations': out, 'keys': []}
    notes, recs, texts = got
    recognised = True
    if not isjson:
        tr = report.TextReport(rec['stdout'])
        sw = tr.gen.get('software')
        recognised = sw is not None and sw.startswith(product)
        comp = tr.gen.get('compatibility')
        want = expected_compat(prof)
        if comp != want:
            out.append(viol('C14 compatibility range differs from the numeric reference', 'shown %r\nwant  %r' % (comp, want)))
    if recognised:
        adds = {(c, n) for s, n, c, _ in recs if s == '+'}
        want = expected_additions(prof, product, version)
        if adds != want:
            missing = sorted(want - adds)[:6]
            extra = sorted(adds - want)[:6]
            t, _ = refmodels.split_version(version)
            multi = any(x >= 10 for x in t[:2]) if t else False
            out.append(viol('C14 additions differ from the numeric reference (%s, %s)' % (product, 'multi-digit component' if multi else 'single-digit components'),
                            'banner=%s\nmissing (available by numeric order, not recommended): %r\nextra (not yet available by numeric order): %r' % (prof['banner'], missing, extra)))
        advertised = {cat: [wire.shown(x) for x in prof[cat]] for cat in CATS}
        signs = {}
        for s, n, c, _ in recs:
            signs.setdefault((c, n), set()).add(s)
        for (cat, name), lv in notes.items():
            if not lv or name not in advertised[cat]:
                continue
            known, key = c13.known_in_version(cat, name, product, version)
            rec_rm = bool({'-', '!'} & signs.get((cat, name), set()))
            if known and not rec_rm:
                out.append(viol('C14 removal not recommended although the algorithm exists in this version by numeric order (%s)' % product,
                                '%s %s versions=%r banner=%s' % (cat, name, gen.db()['ssh2'][cat][key][0], prof['banner'])))
            if not known and rec_rm and key in gen.db()['ssh2'][cat]:
                # "exactly when": an algorithm that the database dates after this version does not count as available, advertised or not
                out.append(viol('C14 removal recommended although the algorithm appeared after this version by numeric order (%s)' % product,
                                '%s %s versions=%r banner=%s' % (cat, name, gen.db()['ssh2'][cat][key][0], prof['banner'])))
        keys.append(h(product, version, case['patch']))
    return {'violations': out, 'keys': keys, 'counters': {'product_' + product: 1, 'recognised': 1 if recognised else 0}}


def shrink(case):
    from .common import shrink_profile_lists
    yield from shrink_profile_lists(case)
    if case['opts'] != ['-n']:
        c = copy.deepcopy(case)
        c['opts'] = ['-n']
        yield c
    if case.get('after'):
        c = copy.deepcopy(case)
        c['after'] = None
        yield c
