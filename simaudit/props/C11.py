"""C11 - host-key sizes, CA details and fingerprints are measured and rated correctly."""
import copy

from .. import gen, report, wire
from .common import viol, h, compact_case, extra_levels

ID = 'C11'
CLAIM = ('the one-connection-per-host-key-type probe protocol runs against simulated servers whose key rings are built byte-by-byte by an independent encoder: RSA moduli on the '
         '64-bit grid 512..16384 (dense around 2048/3072) and, for 30 % of them, on arbitrary sizes (the neighbours of the two thresholds, sizes whose encoding is as long as that of a larger key, odd sizes), Ed25519, Ed448, ECDSA, DSS, RSA and Ed25519 certificates signed by RSA / Ed25519 / ECDSA CAs, every subset and order '
         'of the RSA family; reported sizes, CA details, fingerprints and size notes are compared with the blobs the server really presented; a faulty campaign asserts only '
         'that a reported size / fingerprint is one the server presented')
TRUST = ('trusted base: the independent blob encoder/decoder (RFC 4253, 5656, 8709, PROTOCOL.certkeys) pinned by the real key files of the Docker suite (fidelity anchors); '
         'numbers need not be real keys because the tool never verifies a signature')
TECHNIQUE = 'deterministic simulation of the multi-connection probe protocol; history oracle over the server-side log of presented host keys; probe-phase fault injection'
LEVEL = 'exploration'
BUDGET = {'quick': 200, 'thorough': 2400}
NCASES = {'quick': 1200, 'thorough': 12000}
RULE = ('cases: key ring (RSA size on the 64-bit grid or arbitrary; cert host/CA type and size), host-key list = seeded subset/order of RSA family + other types + certificate types, probe '
        'kex (curve25519 mostly; DH groups and GEX sampled), rendering (text/verbose/JSON); 25% of cases add probe-phase faults; every 8th fault-free case probes the server while a second server with other keys is probed by another worker thread of the same invocation (seeded schedule, half with line-level pre-emption). non-trivial: a host-key reply was parsed; distinct '
        'by (key types, RSA size, CA type, CA size, RSA-family subset/order).')
ASSUMPTIONS = ['size notes are the fail/warn notes a report shows beyond the static database entry of the algorithm (wording not judged)', 'RSA sizes: 70 % on the 64-bit grid 512..16384, 30 % arbitrary (threshold neighbours 2040..2056 / 3064..3080, odd sizes)',
               ]

TWO2K = '2048-bit modulus only provides 112-bits of symmetric strength'
RSA = list(gen.RSA_FAMILY)
RSA_CERTS = ['ssh-rsa-cert-v01@openssh.com', 'rsa-sha2-256-cert-v01@openssh.com', 'rsa-sha2-512-cert-v01@openssh.com']
OTHER = ['ssh-ed25519', 'ssh-ed448', 'ecdsa-sha2-nistp256', 'ecdsa-sha2-nistp384', 'ecdsa-sha2-nistp521', 'ssh-dss']
ECDSA_CERTS = ['ecdsa-sha2-nistp256-cert-v01@openssh.com', 'ecdsa-sha2-nistp384-cert-v01@openssh.com', 'ecdsa-sha2-nistp521-cert-v01@openssh.com']
ECBITS = {'ecdsa-sha2-nistp256': 256, 'ecdsa-sha2-nistp384': 384, 'ecdsa-sha2-nistp521': 521}


def rsa_bits(rng, tier):
    r = rng.random()
    if rng.random() < 0.3:
        # any size at all, not only the usual multiples of 64: the sizes next to the two thresholds, sizes whose encoding takes as many
        # bytes as a larger key's (2040 / 2048), odd sizes
        return rng.choice([2040, 2041, 2047, 2049, 2055, 2056, 3064, 3065, 3071, 3073, 3079, 3080, 1023, 1025, 4095, rng.randrange(512, 8193)])
    if r < 0.35:
        return rng.choice([1984, 2048, 2112, 3008, 3072, 3136])
    if r < 0.9:
        return 64 * rng.randrange(8, 129)        # 512..8192
    return 64 * rng.randrange(129, 257)          # up to 16384


def make_prof(rng, tier):
    fam = rng.sample(RSA, rng.randrange(0, 4))
    others = rng.sample(OTHER, rng.randrange(0, 3))
    keys = {}
    keylist = list(fam) + others
    if fam:
        keys['ssh-rsa'] = {'bits': rsa_bits(rng, tier)}
    for o in others:
        keys[o] = {}
    ca_types = ['ssh-rsa', 'ssh-rsa', 'ssh-ed25519', 'ecdsa-sha2-nistp256', 'ecdsa-sha2-nistp384', 'ecdsa-sha2-nistp521']
    if rng.random() < 0.45:
        certs = rng.sample(RSA_CERTS, rng.randrange(1, 3))
        ct = rng.choice(ca_types)
        spec = {'bits': keys.get('ssh-rsa', {}).get('bits') or rsa_bits(rng, tier), 'ca_type': ct, 'ca_bits': rsa_bits(rng, tier) if ct == 'ssh-rsa' else 0}
        keys['ssh-rsa-cert-v01@openssh.com'] = spec
        keylist = certs + keylist if rng.random() < 0.7 else keylist + certs
    if rng.random() < 0.3:
        ct = rng.choice(ca_types)
        keys['ssh-ed25519-cert-v01@openssh.com'] = {'ca_type': ct, 'ca_bits': rsa_bits(rng, tier) if ct == 'ssh-rsa' else 0}
        keylist.insert(rng.randrange(len(keylist) + 1), 'ssh-ed25519-cert-v01@openssh.com')
    if rng.random() < 0.25:
        # ECDSA host certificates (three curves), signed by any kind of CA
        for ec in rng.sample(ECDSA_CERTS, rng.randrange(1, 3)):
            ct = rng.choice(ca_types)
            keys[ec] = {'ca_type': ct, 'ca_bits': rsa_bits(rng, tier) if ct == 'ssh-rsa' else 0}
            keylist.insert(rng.randrange(len(keylist) + 1), ec)
    if not keylist:
        keylist = ['ssh-ed25519']
        keys['ssh-ed25519'] = {}
    rng.shuffle(keylist) if rng.random() < 0.5 else None
    kexr = rng.random()
    kex = ['curve25519-sha256'] if kexr < 0.7 else [rng.choice(['diffie-hellman-group14-sha256', 'ecdh-sha2-nistp256', 'diffie-hellman-group1-sha1', 'curve25519-sha256@libssh.org',
                                                                'diffie-hellman-group16-sha512', 'ecdh-sha2-nistp521', 'diffie-hellman-group-exchange-sha256'])]
    prof = {'banner': rng.choice(['SSH-2.0-OpenSSH_9.6', 'SSH-2.0-Sim_1.0']), 'kex': kex + ['kex-strict-s-v00@openssh.com'], 'key': keylist, 'enc': ['aes128-ctr'],
            'mac': ['hmac-sha2-256'], 'comp': ['none'], 'keys': keys, 'gex': {'sizes': [3072], 'style': 'roundup'}}
    return prof


def cases(seed, tier):
    for i in range(NCASES[tier]):
        rng = gen.case_rng(seed, ID, i)
        prof = make_prof(rng, tier)
        c = {'profile': prof, 'opts': rng.choice([['-n'], ['-n'], ['-n', '-v'], ['-j'], ['-n', '-b']]), 'net': gen.rand_net(rng) if rng.random() < 0.4 else {'rtt_us': 100},
             'knobs': gen.rand_knobs(rng), 'pseed': rng.getrandbits(32)}
        if rng.random() < 0.25:
            conn = rng.randrange(1, 6)
            kind = rng.choice(['refuse', 'truncate_stall', 'truncate_close', 'garbage', 'truncate_reset', 'close_before', 'late_reply'])
            f = {'conn': conn, 'kind': kind}
            if kind == 'late_reply':
                # a slow peer: the intact reply arrives after the tool's timeout (1 s) has passed, on a connection the peer keeps open
                f = {'conn': conn, 'kind': 'delay', 'msg': 'reply', 'us': rng.choice([1_100_000, 1_600_000, 2_500_000])}
            elif kind != 'refuse':
                f['msg'] = rng.choice(['kexinit', 'reply', 'reply', 'banner'])
                f['off'] = rng.choice([0, 5, 30, 100])
                f['n'] = 50
            c['faults'] = [f]
            c['timeout'] = 1
        elif i % 8 == 5:
            # a server that cannot sign with some advertised member of the RSA family (it disconnects when one is negotiated): the key
            # is presented through another member, and everything said about it must still be right
            r3 = gen.case_rng(seed, ID, i, 'unsignable')
            fam_adv = [a for a in prof['key'] if a in RSA]
            if len(fam_adv) >= 2:
                prof['unsignable'] = r3.sample(fam_adv, r3.randrange(1, len(fam_adv)))
        elif i % 8 == 3:
            # the same server probed while a second one, with other keys, is probed by another worker of the same invocation
            r2 = gen.case_rng(seed, ID, i, 'beside')
            c['beside'] = make_prof(r2, tier)
            c['threads'] = r2.choice([2, 2, 32])
            c['sched'] = gen.rand_sched(r2, preempt=r2.random() < 0.5)
            c['net'] = {'rtt_us': 100}
        yield c


def sample(case):
    return compact_case(case)


def expected_size_levels(facts, is_cert):
    """Levels of the size-related notes the property demands for one presented key (wording is not judged)."""
    want = set()
    b = facts['bits']
    if facts['type'].startswith('ssh-rsa'):
        if b < 2048:
            want.add('fail')
        elif b < 3072:
            want.add('warn')
    if is_cert and facts['ca_type'] == 'ssh-rsa':
        c = facts['ca_bits']
        if c < 2048:
            want.add('fail')
        elif c < 3072:
            want.add('warn')
    if is_cert and facts['ca_type'].startswith('ecdsa-'):
        want.add('fail')        # NIST-curve CAs are failed whatever their size
    return sorted(want)


def size_notes(alg, notes):
    return extra_levels('key', alg, notes) or []


def run_case(case, ctx):
    if case.get('beside'):
        return run_pair(case, ctx)
    prof = case['profile']
    argv = list(case['opts']) + ['--skip-rate-test', '-t', str(case.get('timeout', 3)), 'srv.example:2222']
    plan = gen.server_plan(case['pseed'], argv, prof, port=2222, net=case['net'], knobs=case.get('knobs'), faults=case.get('faults'))
    plan['knobs'] = dict(plan.get('knobs') or {})
    rec = ctx.run(plan)
    if rec.get('harness_error'):
        return {'violations': [], 'keys': []}
    if rec['outcome'] != 'exit' or rec['status'] not in (0, 2, 3):
        return {'violations': [viol('C11 audit did not complete (status %s, %s)' % (rec['status'], rec['outcome']), 'faults=%r\n%s' % (case.get('faults'), rec['stdout'][-900:]))], 'keys': []}
    isjson = any(o in ('-j', '-jj') for o in case['opts'])
    doc = None
    if isjson:
        doc, err = report.parse_json(rec['stdout'])
        if not isinstance(doc, dict):
            return {'violations': [viol('C11 json unparsable', rec['stdout'][:300])], 'keys': []}
    out, keys, nparsed = judge(case, prof, rec['servers'][0], doc if isjson else rec['stdout'], isjson)
    clean = not case.get('faults')
    return {'violations': out, 'keys': keys, 'counters': {'clean' if clean else 'faulty': 1, 'hostkeys_parsed': nparsed}}


def run_pair(case, ctx):
    """Two servers with different keys in one invocation (-T, >= 2 worker threads, seeded schedule): each block is judged against its own server."""
    from . import multi
    profs = [case['profile'], case['beside']]
    targets = [{'kind': 'server', 'host': 'srv%d.example' % i, 'ip': '192.0.2.%d' % (10 + i), 'port': 2222, 'profile': p} for i, p in enumerate(profs)]
    mc = {'targets': targets, 'net': case['net'], 'sched': case['sched'], 'knobs': case.get('knobs') or {}, 'pseed': case['pseed'], 'timeout': 3}
    rec = ctx.run(multi.multi_plan(mc, case['opts'], case['threads'], ctx.scratch()))
    if rec.get('harness_error'):
        return {'violations': [], 'keys': []}
    if rec['outcome'] != 'exit' or rec['status'] not in (0, 2, 3):
        return {'violations': [viol('C11 two-target audit did not complete (status %s, %s)' % (rec['status'], rec['outcome']), rec['stdout'][-900:])], 'keys': []}
    isjson = any(o in ('-j', '-jj') for o in case['opts'])
    per = {}
    if isjson:
        doc, err = report.parse_json(rec['stdout'])
        if not isinstance(doc, list):
            return {'violations': [viol('C11 json unparsable (two targets)', rec['stdout'][:300])], 'keys': []}
        for d in doc:
            i = multi.json_target(d, targets)
            if i is not None:
                per[i] = d
    else:
        for b in multi.split_text_blocks(rec['stdout']):
            i = multi.block_target(b, targets)
            if i is not None:
                per[i] = b
    out, keys, n = [], [], 0
    for i, p in enumerate(profs):
        srv = next((s_ for s_ in rec['servers'] if s_['name'] == targets[i]['host']), None)
        if i not in per or srv is None:
            continue
        o, k, np_ = judge(case, p, srv, per[i], isjson)
        for v in o:
            v['detail'] = '[target %d of 2 in one invocation, %d threads, sched=%r]\n' % (i + 1, case['threads'], case['sched']) + v['detail']
        out += o
        keys += [h(x, 'pair') for x in k]
        n += np_
    return {'violations': out, 'keys': keys, 'counters': {'beside_another_target': 1, 'hostkeys_parsed': n, 'preemptions': rec.get('preemptions', 0) or 0}}


def judge(case, prof, srv, shown, isjson):
    """shown: the text block or the JSON object of the target served by srv."""
    out, keys = [], []
    sent = {}          # alg -> blob facts, from what the server really presented
    from ..peers import blob_type_for_alg
    name = srv['name']
    for hk in srv['hostkeys_sent']:
        bt = blob_type_for_alg(hk['alg'])
        spec = dict(prof['keys'].get(hk['alg']) or prof['keys'].get(bt) or {})
        spec.setdefault('type', bt)
        blob = wire.key_blob(spec, tag=name)
        if wire.fp_sha256(blob) != hk['blob_sha256']:
            raise RuntimeError('oracle cannot rebuild the blob the server sent for %s' % hk['alg'])
        facts = wire.blob_facts(blob)
        facts['sha256'] = wire.fp_sha256(blob)
        facts['md5'] = wire.fp_md5(blob)
        sent[hk['alg']] = facts
    clean = not case.get('faults')
    isjson = any(o in ('-j', '-jj') for o in case['opts'])
    verbose = '-v' in case['opts']
    # ---- collect what is reported
    rep = {}       # alg -> dict(size, ca_size, ca_type, notes)
    fps = {}       # type -> sha256 (and md5)
    if isjson:
        doc = shown
        for e in doc.get('key', []):
            notes = [(lv, t) for lv in ('fail', 'warn', 'info') for t in e['notes'].get(lv, [])]
            rep.setdefault(e['algorithm'], {'size': e.get('keysize'), 'ca_size': e.get('casize'), 'ca_type': e.get('ca_algorithm'), 'notes': notes})
        for f in doc.get('fingerprints', []):
            fps.setdefault(f['hostkey'], {})[f['hash_alg']] = f['hash']
    else:
        tr = report.TextReport(shown, verbose=verbose)
        for e in tr.algs['key']:
            rep.setdefault(e['name'], {'size': e['size'], 'ca_size': e['ca_size'], 'ca_type': e['ca_type'], 'notes': e['notes']})
        for ln in tr.fin:
            parts = ln.split(': ', 1)
            if len(parts) == 2:
                val = parts[1].split(' -- ')[0].strip()
                kind = 'SHA256' if val.startswith('SHA256:') else ('MD5' if val.startswith('MD5:') else None)
                if kind:
                    fps.setdefault(parts[0], {})[kind] = val.split(':', 1)[1]
    advertised = [wire.shown(x) for x in prof['key']]
    fam_sent = next((sent[a] for a in RSA if a in sent), None)
    # ---- sizes and CA details
    for alg in advertised:
        r = rep.get(alg)
        if r is None:
            continue
        facts = sent.get(alg)
        if alg in RSA:
            facts = fam_sent
        is_cert = '-cert-v0' in alg
        if not (alg in RSA or is_cert):
            if r['ca_size'] is not None or r['ca_type'] is not None:
                out.append(viol('C11 CA details reported for a host key that is not a certificate', 'alg=%s reported=%r key list=%r' % (alg, {k: r[k] for k in ('size', 'ca_size', 'ca_type')}, advertised)))
            if any('CA key' in t for _, t in r['notes']):
                out.append(viol('C11 CA note on a host key that is not a certificate', 'alg=%s notes=%r' % (alg, r['notes'])))
            elif size_notes(alg, r['notes']) and alg in sent:
                out.append(viol('C11 size note on a key type of fixed size', 'alg=%s notes=%r' % (alg, r['notes'])))
            continue
        if facts is None:
            if r['size'] is not None or r['ca_size'] is not None:
                out.append(viol('C11 size reported for a key the server never presented', 'alg=%s reported=%r faults=%r' % (alg, r, case.get('faults'))))
            if size_notes(alg, r['notes']):
                out.append(viol('C11 size note for a key the server never presented', 'alg=%s notes=%r' % (alg, r['notes'])))
            continue
        if not clean and r['size'] is None and r['ca_size'] is None:
            # the probe of this type was made to fail: no size is the documented outcome; then there must be no size note either
            if size_notes(alg, r['notes']):
                out.append(viol('C11 size note without a size', 'alg=%s notes=%r' % (alg, r['notes'])))
            continue
        if not is_cert and (r['ca_size'] is not None or r['ca_type'] is not None):
            out.append(viol('C11 CA details reported for a host key that is not a certificate', 'alg=%s reported=%r key list=%r' % (alg, {k: r[k] for k in ('size', 'ca_size', 'ca_type')}, advertised)))
        shows_size = (alg in RSA) or (not isjson) or alg.startswith('ssh-rsa-cert-v0')
        if shows_size and r['size'] != facts['bits']:
            out.append(viol('C11 reported %s size differs from the presented key' % (('ECDSA certificate' if alg.startswith('ecdsa-') else 'certificate') if is_cert else 'RSA'),
                            'alg=%s presented %d-bit, reported %r' % (alg, facts['bits'], r['size'])))
        if is_cert:
            want_ca_type = 'RSA' if (facts['ca_type'] in RSA and not isjson) else facts['ca_type']
            ecb = ECBITS.get(facts['ca_type'])
            if r['ca_size'] != facts['ca_bits']:
                tagx = ' (ECDSA P-521 CA)' if ecb == 521 else ''
                out.append(viol('C11 reported CA size differs from the presented CA key%s' % tagx, 'alg=%s CA %s %d-bit, reported %r' % (alg, facts['ca_type'], facts['ca_bits'], r['ca_size'])))
            if r['ca_type'] != want_ca_type:
                out.append(viol('C11 reported CA type differs', 'alg=%s CA %s reported %r' % (alg, facts['ca_type'], r['ca_type'])))
        want = expected_size_levels(facts, is_cert)
        got = size_notes(alg, r['notes'])
        if got != want:
            cls = 'RSA' if not is_cert else 'cert'
            b = facts['bits']
            band = '<2048' if b < 2048 else ('2048..3071' if b < 3072 else '>=3072')
            out.append(viol('C11 size notes differ from the thresholds (%s, host key %s)' % (cls, band),
                            'alg=%s facts=%r\nwant %r\ngot  %r' % (alg, {k: facts[k] for k in ('type', 'bits', 'ca_type', 'ca_bits')}, sorted(want), sorted(got))))
    # ---- fingerprints: one ssh-rsa entry for the family, none for certificates
    want_fp = {}
    for alg, facts in sent.items():
        if '-cert-' in alg:
            continue
        t = 'ssh-rsa' if alg in RSA else alg
        want_fp[t] = facts
    for t, got in fps.items():
        if t not in want_fp:
            out.append(viol('C11 fingerprint shown for a key type that was not presented (or a certificate)', 'type=%s shown=%r presented=%r' % (t, got, sorted(want_fp))))
            continue
        if 'SHA256' in got and got['SHA256'] != want_fp[t]['sha256']:
            out.append(viol('C11 SHA-256 fingerprint differs from the presented blob', 'type=%s shown=%s want=%s' % (t, got['SHA256'], want_fp[t]['sha256'])))
        if 'MD5' in got and got['MD5'] != want_fp[t]['md5']:
            out.append(viol('C11 MD5 fingerprint differs from the presented blob', 'type=%s shown=%s want=%s' % (t, got['MD5'], want_fp[t]['md5'])))
    if clean:
        hidden = ('ecdsa-', 'ssh-dss')
        for t in want_fp:
            must = isjson or verbose or not t.startswith(hidden)
            if must and t not in fps:
                out.append(viol('C11 fingerprint of a presented key is missing', 'type=%s shown=%r' % (t, sorted(fps))))
        # every probe-able advertised type must have been asked for exactly once (RSA family once)
        probed = [hk['alg'] for hk in srv['hostkeys_sent']]
        if prof['kex'][0] not in gen.GEX and len([a for a in probed if a in RSA]) > 1:
            out.append(viol('C11 RSA family probed more than once', repr(probed)))
    if sent:
        famorder = tuple(a for a in advertised if a in RSA)
        keys.append(h(tuple(sorted(set(f['type'] for f in sent.values()))), fam_sent['bits'] if fam_sent else 0,
                      tuple(sorted((f['ca_type'], f['ca_bits']) for f in sent.values() if f['ca_type'])), famorder))
    return out, keys, len(sent)


def shrink(case):
    if case.get('beside'):
        c = copy.deepcopy(case)
        for k in ('beside', 'threads', 'sched'):
            c.pop(k, None)
        yield c
        c = copy.deepcopy(case)
        c['profile'], c['beside'] = c['beside'], c['profile']
        for k in ('beside', 'threads', 'sched'):
            c.pop(k, None)
        yield c
        if case['sched'].get('preempt_p'):
            c = copy.deepcopy(case)
            c['sched'] = {'policy': 'random', 'seed': case['sched'].get('seed', 0)}
            yield c
    keylist = case['profile']['key']
    if len(keylist) > 1:
        for i in range(len(keylist)):
            c = copy.deepcopy(case)
            del c['profile']['key'][i]
            yield c
    if case['net'] != {'rtt_us': 100}:
        c = copy.deepcopy(case)
        c['net'] = {'rtt_us': 100}
        yield c
    if case['opts'] != ['-n']:
        c = copy.deepcopy(case)
        c['opts'] = ['-n']
        yield c
    if case.get('knobs'):
        c = copy.deepcopy(case)
        c['knobs'] = {}
        yield c
