"""C07 - each target's result is independent of the other targets in the run (worker reuse, thread schedules)."""
import copy
import re
import json

from .. import gen, report
from .common import viol, h, compact_case
from . import multi

ID = 'C07'
CLAIM = 'seeded search over target histories x worker-thread schedules: every per-target block / JSON element / policy verdict of a `-T` run must equal the output of a fresh single-target invocation against the same simulated server; coverage steered by (predecessor -> successor) archetype pairs on one worker'
TRUST = "trusted base: ThreadPoolExecutor algorithm transcribed from CPython 3.12 with kernel-decided scheduling (one thread runs at a time, pre-emption at simulated calls), simulated servers; verbose progress chatter and the multi-target-only '(gen) target:' line are ignored"
TECHNIQUE = 'deterministic simulation with a seeded thread scheduler (baton-passing real threads, simulated locks/events/pools, virtual clock for the connection-rate check), differential oracle against fresh single-target invocations'
LEVEL = 'exploration'
BUDGET = {'quick': 200, 'thorough': 2400}
NCASES = {'quick': 900, 'thorough': 6000}
RULE = ('cases: 2-3 (thorough: up to 5) targets, one simulated server each, drawn from channel archetypes (Terrapin-marked / Terrapin-noted / CBC+ETM, '
        'small / 2048 / large RSA host key, certificate with small CA, small / 2048 / OpenSSH-fallback / large GEX modulus, SSH-1 server, unknown-algorithm '
        'server, refusing server, clean server) in seeded order; one `-T file --threads k` invocation (text, -j or -P policy) under a seeded scheduler policy '
        'and per-target latencies, plus one fresh single-target invocation per target; each block / JSON element / verdict must equal the single-target one. '
        'non-trivial: >= 2 targets ran on the same worker or >= 2 workers interleaved; distinct by interleaving signature x (predecessor -> successor) archetype pairs on one worker.')
ASSUMPTIONS = ['the thread pool algorithm is transcribed from CPython 3.12; which worker takes which target and every interleaving at simulated calls is decided by the seeded scheduler',
               'the "(gen) target:" line that only multi-target mode prints is removed before comparing']

KINDS = ['clean', 'terrapin_marked', 'terrapin_noted', 'cbc_etm', 'rsa1024', 'rsa2048', 'rsa4096', 'cert_small_ca', 'gex1024', 'gex2048', 'gex2048_openssh',
         'gex4096', 'ssh1', 'unknown', 'refused', 'old']


def make_target(rng, kind, i):
    host = '%s%d.example' % (kind.replace('_', '-'), i)
    t = {'kind': 'server', 'arch': kind, 'host': host, 'ip': '192.0.2.%d' % (10 + i), 'port': rng.choice([22, 22, 2222, 2022])}
    if kind == 'refused':
        t['kind'] = 'refused'
        return t
    if kind == 'ssh1':
        t['profile'] = {'banner': 'SSH-1.5-OpenSSH_3.0', 'ssh2': False, 'ssh1': {'cmask': rng.choice([0x48, 0x4d, 0x0c]), 'amask': rng.choice([0x0c, 0x3e]),
                                                                                'hkey_bits': 1024, 'skey_bits': 768}}
        return t
    if kind == 'old':
        t['profile'] = gen.archetype('old')
        t['profile']['kex'] = ['diffie-hellman-group-exchange-sha256', 'diffie-hellman-group-exchange-sha1', 'curve25519-sha256']
        return t
    marker = kind in ('terrapin_noted', 'clean')
    kex = ['curve25519-sha256', 'diffie-hellman-group-exchange-sha256']
    if kind.startswith('gex') and rng.random() < 0.5:
        kex.append('diffie-hellman-group-exchange-sha1')
    if marker:
        kex.append('kex-strict-s-v00@openssh.com')
    key = ['rsa-sha2-512', 'rsa-sha2-256', 'ssh-rsa', 'ssh-ed25519']
    enc = ['chacha20-poly1305@openssh.com', 'aes128-ctr', 'aes256-gcm@openssh.com']
    mac = ['hmac-sha2-256-etm@openssh.com', 'hmac-sha2-512-etm@openssh.com', 'hmac-sha2-256']
    if kind == 'cbc_etm':
        enc = ['aes128-ctr', 'aes128-cbc', 'aes256-cbc']
    if kind == 'clean':
        enc = ['aes128-ctr', 'aes256-gcm@openssh.com', 'chacha20-poly1305@openssh.com']
    bits = {'rsa1024': 1024, 'rsa2048': 2048, 'rsa4096': 4096}.get(kind, rng.choice([3072, 4096]))
    keys = {'ssh-rsa': {'bits': bits}, 'ssh-ed25519': {}}
    if kind == 'cert_small_ca':
        key = ['ssh-rsa-cert-v01@openssh.com', 'ssh-ed25519-cert-v01@openssh.com'] + key
        keys['ssh-rsa-cert-v01@openssh.com'] = {'bits': bits, 'ca_type': 'ssh-rsa', 'ca_bits': rng.choice([1024, 2048])}
        keys['ssh-ed25519-cert-v01@openssh.com'] = {'ca_type': 'ssh-rsa', 'ca_bits': rng.choice([1024, 2048])}
    gexsizes = {'gex1024': [1024, 2048], 'gex2048': [2048, 3072], 'gex2048_openssh': [1024], 'gex4096': [4096, 8192]}.get(kind, [3072, 4096, 8192])
    banner = 'SSH-2.0-OpenSSH_9.6'
    gex = {'sizes': gexsizes, 'style': 'strict'}
    if kind == 'gex2048_openssh':
        gex = {'sizes': [1024], 'style': 'openssh', 'grp_min': 2048}
    elif kind in ('gex1024', 'gex2048'):
        banner = rng.choice(['SSH-2.0-Sim_1.0', 'SSH-2.0-libssh_0.9.6'])
    if kind == 'unknown':
        kex = kex + ['made-up-kex@example.com']
        enc = enc + ['made-up-cipher@example.com']
        mac = mac + ['made-up-mac@example.com']
        key = key + ['made-up-key@example.com']
    t['profile'] = {'banner': banner, 'kex': kex, 'key': key, 'enc': enc, 'mac': mac, 'comp': ['none', 'zlib@openssh.com'], 'keys': keys, 'gex': gex,
                    'banner_delay_us': rng.choice([0, 0, 500, 5000, 40000])}
    return t


POLICY = '''name = "sim policy"
version = 1
allow_algorithm_subset_and_reordering = true
allow_larger_keys = true
host keys = rsa-sha2-512, rsa-sha2-256, ssh-ed25519
key exchanges = curve25519-sha256, diffie-hellman-group-exchange-sha256, kex-strict-s-v00@openssh.com
ciphers = chacha20-poly1305@openssh.com, aes128-ctr, aes256-gcm@openssh.com
macs = hmac-sha2-256-etm@openssh.com, hmac-sha2-512-etm@openssh.com, hmac-sha2-256
host_key_sizes = {"rsa-sha2-512": {"hostkey_size": 3072}, "rsa-sha2-256": {"hostkey_size": 3072}, "ssh-ed25519": {"hostkey_size": 256}}
dh_modulus_sizes = {"diffie-hellman-group-exchange-sha256": 3072}
'''


def cases(seed, tier):
    n = NCASES[tier]
    # directed histories: every ordered pair of archetypes on one worker (thorough: all 256, twice; quick: a seeded 96)
    pairs = [(a, b) for a in KINDS for b in KINDS]
    if tier != 'thorough':
        pairs = gen.case_rng(seed, ID, 'pairs').sample(pairs, 96)
    else:
        pairs = pairs + pairs
    for j, (a, b) in enumerate(pairs):
        rng = gen.case_rng(seed, ID, 'pair', j)
        targets = [make_target(rng, a, 0), make_target(rng, b, 1)]
        if tier == 'thorough' and j % 3 == 0:
            targets.append(make_target(rng, rng.choice(KINDS), 2))
        mode = ['text', 'json', 'policy', 'policy_json'][j % 4]
        opts = {'text': ['-n'], 'json': ['-j'], 'policy': ['-n', '-P', '{DIR}/policy.txt'], 'policy_json': ['-j', '-P', '{DIR}/policy.txt']}[mode]
        c = {'targets': targets, 'mode': mode, 'opts': opts, 'threads': 1, 'sched': {'policy': 'run_to_block', 'seed': j}, 'net': {'rtt_us': 300}, 'pseed': rng.getrandbits(32), 'timeout': 2}
        if mode.startswith('policy'):
            c['policy_text'] = POLICY
        yield c
    for i in range(n):
        rng = gen.case_rng(seed, ID, i)
        k = rng.choice([2, 2, 3]) if tier == 'quick' else rng.choice([2, 3, 3, 4, 5])
        kinds = [rng.choice(KINDS) for _ in range(k)]
        if i % 3 == 0:
            # directed: a "leaker" followed by a sensitive clean/large target
            kinds[0] = rng.choice(['terrapin_marked', 'cbc_etm', 'rsa1024', 'rsa2048', 'cert_small_ca', 'gex1024', 'gex2048', 'gex2048_openssh', 'old'])
            kinds[1] = rng.choice(['clean', 'rsa4096', 'gex4096', 'terrapin_noted'])
        targets = [make_target(rng, kd, j) for j, kd in enumerate(kinds)]
        r2 = gen.case_rng(seed, ID, i, 'same-host')
        if r2.random() < 0.12 and targets[0].get('kind') == 'server' and targets[1].get('kind') == 'server':
            # two services of one host: the same name and address, two ports
            targets[1]['host'], targets[1]['ip'] = targets[0]['host'], targets[0]['ip']
            targets[1]['port'] = r2.choice([p_ for p_ in (22, 2222, 2022, 8022) if p_ != targets[0]['port']])
        mode = rng.choice(['text', 'text', 'json', 'policy', 'policy_json'])
        opts = {'text': rng.choice([['-n'], ['-n', '-b'], ['-n', '-v'], []]), 'json': rng.choice([['-j'], ['-jj']]), 'policy': ['-n', '-P', '{DIR}/policy.txt'],
                'policy_json': ['-j', '-P', '{DIR}/policy.txt']}[mode]
        c = {'targets': targets, 'mode': mode, 'opts': opts, 'threads': rng.choice([1, 1, 2, k, 32]), 'sched': gen.rand_sched(rng, preempt=(tier == 'thorough' and i % 4 == 0) or (tier == 'quick' and i % 5 == 0)),
             'net': {'rtt_us': rng.choice([100, 300, 3000])}, 'pseed': rng.getrandbits(32), 'timeout': 2}
        if mode.startswith('policy'):
            c['policy_text'] = POLICY
        yield c
    yield from rate_cases(seed, tier)


def rate_cases(seed, tier):
    """Runs in which the connection-rate check of the standard audit runs (every other case passes --skip-rate-test).  The check is the
    one phase whose *finding* is a measurement over time: one target answers slowly (its check runs for the whole 1.5 s window and ends far
    below the 20 connections per second that earn the note), the others answer at once (38 connections in a few milliseconds: far above it),
    so that whether a target gets the note is decided by margins of two orders of magnitude - in the run and in the single-target reference
    alike - and cannot legitimately depend on the other targets.  The numbers quoted inside the note are masked before comparing."""
    for j in range(40 if tier == 'quick' else 600):
        rng = gen.case_rng(seed, ID, 'rate', j)
        k = rng.choice([2, 3, 3])
        targets = []
        slow = rng.randrange(k)
        for i in range(k):
            t = make_target(rng, rng.choice(['clean', 'terrapin_marked', 'rsa2048', 'cbc_etm']), i)
            t['profile']['kex'] = [x for x in t['profile']['kex'] if not x.startswith('diffie-hellman-group-exchange')] + ['diffie-hellman-group14-sha256']
            t['profile']['key'] = ['ssh-ed25519']
            if i == slow:
                # quick during the audit proper, slow from the first connection of the rate check on: its check is under way early and lasts the whole window
                t['profile']['banner_delay_us'] = rng.choice([400_000, 700_000])
                t['profile']['banner_delay_from'] = 2
            else:
                # the other way round: these reach their rate check (fractions of a second) later, while the slow target's check is still going
                t['profile']['banner_delay_us'] = rng.choice([0, 150_000, 300_000])
                t['profile']['banner_delay_until'] = 2
            t['arch'] = ('slow_' if i == slow else 'fast_') + t['arch']
            targets.append(t)
        mode = rng.choice(['text', 'json'])
        yield {'targets': targets, 'mode': mode, 'opts': ['-n'] if mode == 'text' else ['-j'], 'threads': rng.choice([2, k, 32]), 'sched': gen.rand_sched(rng, preempt=False),
               'net': {'rtt_us': 100}, 'pseed': rng.getrandbits(32), 'timeout': 3, 'rate_test': True}


_RATE_NUMBERS = re.compile(r'\d+ connections were created in [0-9.]+ seconds, or [0-9.]+ conns/sec')


def mask_rate(text):
    return _RATE_NUMBERS.sub('N connections were created in T seconds, or R conns/sec', text)


def sample(case):
    return {'targets': [{'arch': t.get('arch'), 'host': t['host'], 'port': t['port']} for t in case['targets']], 'mode': case['mode'], 'opts': case['opts'],
            'threads': case['threads'], 'sched': case['sched']}


def run_case(case, ctx):
    out = []
    targets = case['targets']
    scratch = ctx.scratch()
    mrec = ctx.run(multi.multi_plan(case, case['opts'], case['threads'], scratch))
    if mrec.get('harness_error'):
        return {'violations': [], 'keys': []}
    singles = []
    for i in range(len(targets)):
        r = ctx.run(multi.single_plan(case, i, case['opts'], scratch))
        if r.get('harness_error'):
            return {'violations': [], 'keys': []}
        singles.append(r)
    archs = [t.get('arch') for t in targets]
    mode = case['mode']
    if mrec['outcome'] != 'exit' or mrec['status'] not in (0, 1, 2, 3):
        out.append(viol('C07 multi-target run did not complete normally (status=%s outcome=%s)' % (mrec['status'], mrec['outcome']),
                        'archs=%r\nstdout tail:\n%s\nstderr:\n%s' % (archs, mrec['stdout'][-1500:], mrec['stderr'][-500:])))
    elif mode in ('json', 'policy_json'):
        doc, err = report.parse_json(mask_rate(mrec['stdout']) if case.get('rate_test') else mrec['stdout'])
        if not isinstance(doc, list):
            # malformed array is C08's business; C07 only compares what it can attribute
            doc = []
        seen = {}
        for el in doc:
            i = multi.json_target(el, targets)
            if i is not None:
                seen[i] = el
        for i, s in enumerate(singles):
            sdoc, _ = report.parse_json(mask_rate(s['stdout']) if case.get('rate_test') else s['stdout'])
            if sdoc is None or i not in seen:
                continue
            if seen[i] != sdoc:
                diff = [kk for kk in set(sdoc) | set(seen[i]) if sdoc.get(kk) != seen[i].get(kk)] if isinstance(sdoc, dict) else ['*']
                out.append(viol('C07 json entry differs from single-target run (%s) fields=%s' % (mode, ','.join(sorted(diff))[:80]),
                                'target %d (%s) after/among %r threads=%d\nfirst differing field %s:\n multi : %s\n single: %s' % (
                                    i, archs[i], archs, case['threads'], sorted(diff)[0] if diff else '',
                                    json.dumps(seen[i].get(sorted(diff)[0]) if diff and isinstance(seen[i], dict) else seen[i])[:900],
                                    json.dumps(sdoc.get(sorted(diff)[0]) if diff and isinstance(sdoc, dict) else sdoc)[:900])))
    else:
        blocks = multi.split_text_blocks(mrec['stdout'])
        seen = {}
        for b in blocks:
            i = multi.block_target(b, targets, policy_mode=(mode == 'policy'))
            if i is not None and i not in seen:
                seen[i] = b
        for i, s in enumerate(singles):
            if i not in seen:
                continue
            a, b = multi.norm_block(seen[i]), multi.norm_block(s['stdout'])
            if case.get('rate_test'):
                a, b = mask_rate(a), mask_rate(b)
            if a != b:
                al, bl = a.split('\n'), b.split('\n')
                extra = [ln for ln in al if ln not in bl][:6]
                missing = [ln for ln in bl if ln not in al][:6]
                kind = 'extra+missing' if extra and missing else ('extra' if extra else 'missing')
                what = 'Terrapin' if any('Terrapin' in ln for ln in extra + missing) else ('modulus' if any('modulus' in ln or '-bit' in ln for ln in extra + missing) else 'lines')
                out.append(viol('C07 text block differs from single-target run (%s, %s %s)' % (mode, kind, what),
                                'target %d (%s) among %r threads=%d sched=%r\nonly in multi-target block:\n  %s\nonly in single-target output:\n  %s' % (
                                    i, archs[i], archs, case['threads'], case['sched'], '\n  '.join(extra), '\n  '.join(missing))))
    # coverage: predecessor -> successor pairs on the same worker, interleaving signature
    keys = []
    assign = mrec.get('assignments') or [[]]
    per_worker = {}
    for widx, fseq in assign[0]:
        per_worker.setdefault(widx, []).append(fseq - 1)
    pairs = []
    for widx, seqs in per_worker.items():
        for a, b in zip(seqs, seqs[1:]):
            if a < len(archs) and b < len(archs):
                pairs.append((archs[a], archs[b]))
    interleaved = len(per_worker) >= 2 and mrec.get('switches', 0) > 2 * len(per_worker)
    if pairs or interleaved:
        sig = h(mrec.get('sched_trace'))
        for p in pairs or [('-', '-')]:
            keys.append(h(p, sig if interleaved else '', case['mode']))
    counters = {'pairs_same_worker': len(pairs), 'interleaved_runs': 1 if interleaved else 0, 'mode_' + mode: 1}
    for a, b in pairs:
        counters['pair %s -> %s' % (a, b)] = 1
    return {'violations': out, 'keys': keys, 'counters': counters}


def shrink(case):
    if len(case['targets']) > 2:
        for i in range(len(case['targets'])):
            c = copy.deepcopy(case)
            del c['targets'][i]
            yield c
    if case['threads'] != 1:
        c = copy.deepcopy(case)
        c['threads'] = 1
        yield c
    if case['sched'].get('policy') != 'run_to_block':
        c = copy.deepcopy(case)
        c['sched'] = {'policy': 'run_to_block', 'seed': 0}
        yield c
    for i, t in enumerate(case['targets']):
        if t.get('profile', {}).get('banner_delay_us'):
            c = copy.deepcopy(case)
            c['targets'][i]['profile']['banner_delay_us'] = 0
            yield c
