"""C10 - packets are well-framed and carry what was intended (the part of C10 that reaches a wire)."""
import copy

from .. import gen, report, wire
from .common import viol, h, compact_case, CATS

ID = 'C10'
CLAIM = ('every packet the tool emits on every simulated connection (handshake, host-key probes, GEX probes) is decoded by an independent decoder at the peer while the run '
         'proceeds, also when the send buffer takes only 1 .. 16384 bytes per send() call (short writes; a connection closed with part of a packet written is a violation): total length = 0 mod 8, padding >= 4, consistent length fields, probe KEXINITs carry exactly the intended lists, GEX requests are the documented tuples, '
         'e is a canonical positive mpint in range and equals g^x mod p for the exponent the randomness seam handed out; payload lengths are swept through all residues mod 8 by '
         'varying the server lists the tool echoes back; conversely well-framed SSH-2 packets with every legal padding length / pad byte and SSH-1 packets under every segmentation '
         'are accepted, also when several packets arrive in one delivery (SSH_MSG_DEBUG packets right before the replies), and an SSH-1 CRC off by one bit is rejected. NOT decided here: signed/negative mpints, read_mpint2, SSH-1 mpint writers and message re-encoding never reach '
         'a wire in any run, so codec-only round-trip clauses of C10 are out of reach of a simulation')
TRUST = 'trusted base: the independent framing/KEXINIT/mpint decoder in simaudit.wire; the randomness seam that records the DH exponent'
TECHNIQUE = 'deterministic simulation; wire invariants evaluated at the simulated peer on every packet of every connection'
LEVEL = 'exploration'
BUDGET = {'quick': 200, 'thorough': 2400}
NCASES = {'quick': 500, 'thorough': 9000}
RULE = ('cases: server lists padded with seeded long names so that the echoed KEXINIT payload length covers 0..4095 and all residues mod 8; host-key types and GEX algorithms that '
        'trigger probe connections; kexinit padding length / pad byte variations; SSH-1 servers with CRC flips. non-trivial: a packet from the tool was decoded; distinct by '
        '(message type, payload length mod 8, probe kind).')
ASSUMPTIONS = ['names that are not valid UTF-8 are excluded from the echo-equality check (the tool decodes with replacement by design)']


def cases(seed, tier):
    n = NCASES[tier]
    for i in range(n):
        rng = gen.case_rng(seed, ID, i)
        if rng.random() < 0.12:
            flip = rng.random() < 0.5
            prof = {'banner': 'SSH-1.5-OpenSSH_3.0', 'ssh2': False, 'ssh1': {'cmask': rng.getrandbits(7), 'amask': rng.getrandbits(7) | 4, 'hkey_bits': rng.choice([512, 768, 1024, 1025, 2048]),
                                                                         'skey_bits': rng.choice([512, 768, 769])}}
            c = {'kind': 'ssh1', 'profile': prof, 'flip': flip, 'net': gen.rand_net(rng), 'pseed': rng.getrandbits(32)}
            if flip:
                c['flip_off'] = rng.randrange(0, 260)
                c['flip_bit'] = rng.randrange(8)
            yield c
            continue
        p = gen.rand_profile(rng, allow_odd=False)
        # sweep the echoed payload length: the probe KEXINIT repeats enc/mac/comp lists twice
        fill = (i * 7 + rng.randrange(8)) % 2048
        if fill > 14:
            p[rng.choice(['enc', 'mac'])].append('f' * (fill - 12) + '@example.com')
        if rng.random() < 0.4:
            p['kex'] = [k for k in p['kex'] if k not in gen.GEX] + rng.sample(list(gen.GEX), rng.randrange(1, 3))
            p['gex'] = {'sizes': sorted(rng.sample([1024, 2048, 3072, 4096], 2)), 'style': rng.choice(['strict', 'roundup'])}
            if rng.random() < 0.5:
                p['kex'] = [k for k in p['kex'] if k in gen.GEX]     # host-key probes go through GEX as well
        if not any(k in gen.PROBE_KEX for k in p['kex']):
            p['kex'].insert(0, 'curve25519-sha256')
        if rng.random() < 0.3:
            first = next(k for k in p['kex'] if k in gen.PROBE_KEX)
            if first not in gen.GEX:
                p['kex'].remove(first)
                p['kex'].insert(0, rng.choice(['diffie-hellman-group14-sha256', 'diffie-hellman-group1-sha1', 'ecdh-sha2-nistp256', 'curve25519-sha256']))
        if not p['key']:
            p['key'] = ['ssh-ed25519']
        p['keys'] = gen.rand_keys(rng, p['key'])
        p['lang'] = rng.choice([[], [], ['en-US'], ['fr-CA', 'zh-Hant'], ['gr\u00fc\u00df-DE']])
        if rng.random() < 0.3:
            # names with multi-byte UTF-8 characters: character count and byte count of the encoded list differ
            p[rng.choice(['enc', 'mac'])].append(rng.choice(['caf\u00e9-cipher@example.com', '\u5bc6\u7801@example.com', 'na\u00efve-mac']))
        if rng.random() < 0.1:
            p[rng.choice(['enc', 'mac'])].append(gen.nonutf8_name(rng))
        if rng.random() < 0.4:
            p['pad_extra'] = rng.randrange(0, 31)
            p['pad_byte'] = rng.choice([0, 0xff, 0x41, rng.randrange(256)])
        c = {'kind': 'ssh2', 'profile': p, 'net': gen.rand_net(rng), 'knobs': gen.rand_knobs(rng), 'pseed': rng.getrandbits(32)}
        r5 = gen.case_rng(seed, ID, i, 'pad_all')
        if r5.random() < 0.3:
            # every packet of the server (key-exchange replies, group messages, DEBUG packets), not only its KEXINIT, carries a seeded legal
            # padding length of up to 255 bytes and a seeded pad byte
            p['pad_all'] = True
            p['pad_extra'] = r5.choice([r5.randrange(0, 31), r5.randrange(14, 31), 30])
            p['pad_byte'] = r5.choice([0, 0xff, r5.randrange(256)])
            p.setdefault('gex', {'sizes': [r5.choice([1024, 2048, 3072, 4096])], 'style': 'roundup'})
            if r5.random() < 0.6 and not any(k.startswith('diffie-hellman-group-exchange') for k in p['kex']):
                p['kex'] = list(p['kex']) + ['diffie-hellman-group-exchange-sha256']
        r4 = gen.case_rng(seed, ID, i, 'directions')
        if r4.random() < 0.25:
            # a KEXINIT whose two directions differ: what the tool echoes in its probe KEXINITs is what it decoded as the
            # server-to-client lists (both directions of the probe carry them)
            for cat in r4.choice([['enc'], ['mac'], ['enc', 'mac', 'comp']]):
                pool = ['none', 'zlib', 'zlib@openssh.com'] if cat == 'comp' else [n for n in gen.db_names(cat) if not n.endswith('-*')]
                p[cat + '_c2s'] = r4.sample(pool, r4.randrange(1, min(4, len(pool)) + 1))
        r3 = gen.case_rng(seed, ID, i, 'reset')
        if r3.random() < 0.25:
            # the peer resets one probe connection at a seeded moment (a write of the tool then fails): every packet the tool emits
            # afterwards, on the following connections, must still be exactly the message it was meant to be
            c['faults'] = [{'conn': r3.randrange(1, 8), 'msg': r3.choice(['banner', 'kexinit', 'kexinit', 'reply', 'group']), 'kind': 'truncate_reset', 'off': r3.choice([0, 5, 40, 10 ** 6, 10 ** 6, 10 ** 6])}]      # 10**6: the whole message, then the reset
            c['timeout'] = 2
        r2 = gen.case_rng(seed, ID, i, 'debug')
        if 'faults' not in c and r2.random() < 0.3:
            # a peer that sends SSH_MSG_DEBUG packets (1-3, seeded message lengths) right before its key-exchange replies, in the same write
            c['debug_before'] = [r2.choice([0, 3, 40, 700]) for _ in range(r2.randrange(1, 4))]
        yield c


def sample(case):
    return compact_case(case)


def run_case(case, ctx):
    out, keys = [], []
    p = case['profile']
    faults = None
    if case['kind'] == 'ssh1' and case['flip']:
        faults = [{'conn': 1, 'msg': 'ssh1_pubkey', 'kind': 'corrupt', 'off': case['flip_off'], 'hex': 'XX'}]
    plan = gen.server_plan(case['pseed'], ['-n', '--skip-rate-test'] + (['-t', str(case['timeout'])] if case.get('timeout') else []) + ['srv.example:2222'], p, port=2222, net=case['net'],
                           knobs=case.get('knobs'), faults=case.get('faults'))
    if faults:
        # flip one bit of the SSH-1 public key packet: the honest bytes are needed first
        plan0 = copy.deepcopy(plan)
        plan0['keep_tx_msgs'] = True
        r0 = ctx.run(plan0)
        if r0.get('harness_error'):
            return {'violations': [], 'keys': []}
        msg = [t for t in r0['servers'][0]['conns'][1]['tx'] if t['tag'] == 'ssh1_pubkey'][0]
        data = bytes.fromhex(msg['hex'])
        off = 4 + (case['flip_off'] % (len(data) - 4))      # leave the length field alone: this is about the checksum
        faults[0]['off'] = off
        faults[0]['hex'] = '%02x' % (data[off] ^ (1 << case['flip_bit']))
        plan['world']['servers'][0]['faults'] = faults
    rec = ctx.run(plan)
    if rec.get('harness_error'):
        return {'violations': [], 'keys': []}
    if case['kind'] == 'ssh1':
        tr = report.TextReport(rec['stdout'])
        if case['flip']:
            if rec['status'] != 1 or tr.has_alg_report():
                out.append(viol('C10 SSH-1 packet with a corrupted byte was accepted (CRC not enforced)', 'flip at %d bit %d\n%s' % (faults[0]['off'], case['flip_bit'], rec['stdout'][-500:])))
        elif rec['status'] not in (0, 2, 3) or not tr.has_alg_report():
            out.append(viol('C10 well-formed SSH-1 packet rejected', 'net=%r\n%s' % (case['net'], rec['stdout'][-500:])))
        keys.append(h('ssh1', case['flip'], case['net']['seg'].get('mode'), p['ssh1']['hkey_bits']))
        return {'violations': out, 'keys': keys}
    if rec['outcome'] != 'exit' or rec['status'] not in (0, 2, 3):
        out.append(viol('C10 audit of a well-framed peer failed (status %s)' % rec['status'], 'pad_extra=%r pad_byte=%r\n%s' % (p.get('pad_extra'), p.get('pad_byte'), rec['stdout'][-700:])))
        return {'violations': out, 'keys': []}
    # every well-framed packet of the peer must be accepted whatever the segmentation: the report (which includes the
    # probe-derived sizes and fingerprints) must equal the one obtained when every message arrives in one piece
    if case['net'].get('seg', {}).get('mode', 'msg') != 'msg' and not case.get('faults'):      # with a reset in play, what is read before it is a matter of timing
        plan_ref = copy.deepcopy(plan)
        plan_ref['net'] = {'rtt_us': 200, 'seg': {'mode': 'msg'}}
        ref = ctx.run(plan_ref)
        if not ref.get('harness_error') and (ref['stdout'] != rec['stdout'] or ref['status'] != rec['status']):
            a, b = ref['stdout'].split('\n'), rec['stdout'].split('\n')
            diff = [(x, y) for x, y in zip(a, b) if x != y][:2]
            out.append(viol('C10 well-framed packets are not accepted alike under segmentation (report differs from the unsegmented run)',
                            'net=%r\nfirst differing lines (unsegmented, segmented): %r' % (case['net'], diff)))
    if p.get('pad_all') and not case.get('faults'):
        # padding is presentation: the same peer framing its packets with minimal padding must get the same report
        plan_min = copy.deepcopy(plan)
        pm = plan_min['world']['servers'][0]['profile']
        for kk in ('pad_all', 'pad_extra', 'pad_byte'):
            pm.pop(kk, None)
        r3 = ctx.run(plan_min)
        if not r3.get('harness_error') and (r3['stdout'] != rec['stdout'] or r3['status'] != rec['status']):
            a, b = r3['stdout'].split('\n'), rec['stdout'].split('\n')
            diff = [(x, y) for x, y in zip(a, b) if x != y][:2] or [('lines: %d' % len(a), 'lines: %d' % len(b))]
            out.append(viol('C10 well-framed packets with long padding are not read back as sent (report differs from the one for minimal padding)',
                            'pad_extra=%r pad_byte=%r\nfirst differing lines (minimal, long padding): %r' % (p.get('pad_extra'), p.get('pad_byte'), diff)))
    if case.get('debug_before'):
        # several well-framed packets delivered back to back: each must be read as it was sent, so the packets after the
        # DEBUG ones are still the replies, and the report equals the one of the peer that sends no DEBUG packets
        dbg = b''.join(wire.frame(bytes([wire.MSG_DEBUG, 0]) + wire.sstr('d' * n) + wire.sstr('')) for n in case['debug_before'])
        plan_dbg = copy.deepcopy(plan)
        plan_dbg['world']['servers'][0]['faults'] = [{'conn': '*', 'msg': m, 'kind': 'insert_before', 'hex': dbg.hex()} for m in ('reply', 'group')]
        r2 = ctx.run(plan_dbg)
        if not r2.get('harness_error') and (r2['stdout'] != rec['stdout'] or r2['status'] != rec['status']):
            a, b = rec['stdout'].split('\n'), r2['stdout'].split('\n')
            diff = [(x, y) for x, y in zip(a, b) if x != y][:2] or [('lines: %d' % len(a), 'lines: %d' % len(b))]
            out.append(viol('C10 packets that follow other packets in one delivery are not read back as sent (report differs when DEBUG packets precede the replies)',
                            'debug message lengths=%r net=%r\nfirst differing lines (without, with): %r' % (case['debug_before'], case['net'], diff)))
    srv = rec['servers'][0]
    def lat(x):
        return wire.nb(x).decode('latin-1')

    def utf8ok(lst):
        try:
            for x in lst:
                wire.nb(x).decode('utf-8')
            return True
        except UnicodeDecodeError:
            return False
    # what the server put on the wire, byte for byte (the server log holds bytes as latin-1 text)
    own = {c: [lat(x) for x in p.get(c, [])] for c in ('kex', 'key', 'enc', 'mac', 'comp', 'lang')}
    own['comp'] = [lat(x) for x in p.get('comp', ['none'])]
    echo_ok = {c: utf8ok(p.get(c, [])) for c in own}
    for c in srv['conns']:
        if c.get('script_error'):
            out.append(viol('C10 a message from the tool cannot be decoded by the independent decoder', 'conn %d: %s' % (c['ordinal'], c['script_error'])))
        for f in c['frames']:
            if 'error' in f:
                out.append(viol('C10 packet from the tool does not frame', 'conn %d: %s' % (c['ordinal'], f['error'])))
                continue
            if not (f['ok_mod'] and f['ok_pad'] and f['ok_min'] and f['packet_length'] == 1 + f['payload_len'] + f['padding']):
                out.append(viol('C10 packet from the tool violates RFC 4253 section 6 (%s)' % ('length not multiple of 8' if not f['ok_mod'] else ('padding < 4' if not f['ok_pad'] else 'length fields')),
                                'conn %d frame %r' % (c['ordinal'], f)))
            kind = 'first' if c['ordinal'] == 0 else 'probe'
            keys.append(h(f['type'], f['payload_len'] % 8, kind))
        for r in c['rx']:
            if r[0] == 'unexpected':
                out.append(viol('C10 the first packet the tool sent on a connection is not a KEXINIT', 'conn %d: message type %r' % (c['ordinal'], r[1])))
            if r[0] == 'e_canonical' and not r[1]:
                out.append(viol('C10 DH public value e is not a canonical positive mpint', 'conn %d' % c['ordinal']))
            if r[0] == 'e_in_range' and not r[1]:
                out.append(viol('C10 DH public value e is outside [1, p-1]', 'conn %d' % c['ordinal']))
            if r[0] == 'gex_e_matches_x' and not r[1]:
                out.append(viol('C10 GEX e differs from g^x mod p for the exponent drawn', 'conn %d' % c['ordinal']))
            if r[0] == 'kexinit' and c['ordinal'] > 0:
                k = r[1]
                if k['trailing']:
                    out.append(viol('C10 probe KEXINIT has trailing bytes', repr(k['trailing'])))
                if len(k['kex']) != 1 or k['kex'][0] not in own['kex']:
                    out.append(viol('C10 probe KEXINIT does not carry exactly one key exchange of the server', 'sent %r' % (k['kex'],)))
                if not (k['key'] == own['key'] or (len(k['key']) == 1 and k['key'][0] in own['key'])):
                    out.append(viol('C10 probe KEXINIT host-key list is neither the probed type nor the server list', 'sent %r server %r' % (k['key'], own['key'])))
                for fld, cat in (('enc_c2s', 'enc'), ('enc_s2c', 'enc'), ('mac_c2s', 'mac'), ('mac_s2c', 'mac'), ('comp_c2s', 'comp'), ('comp_s2c', 'comp'), ('lang_c2s', 'lang'), ('lang_s2c', 'lang')):
                    if echo_ok[cat] and k[fld] != own[cat]:
                        out.append(viol('C10 probe KEXINIT does not echo the server %s list' % cat, 'field %s sent %r want %r' % (fld, k[fld][:6], own[cat][:6])))
                        break
    return {'violations': out, 'keys': keys, 'counters': {'frames': sum(len(c['frames']) for c in srv['conns'])}}


def shrink(case):
    if case['kind'] != 'ssh2':
        return
    from .common import shrink_profile_lists
    yield from shrink_profile_lists(case)
    if case.get('debug_before') and len(case['debug_before']) > 1:
        c = copy.deepcopy(case)
        c['debug_before'] = case['debug_before'][:1]
        yield c
    if case['net'] != {'rtt_us': 200}:
        c = copy.deepcopy(case)
        c['net'] = {'rtt_us': 200, 'seg': {'mode': 'msg'}}
        yield c
