"""C19 - a standard audit's footprint on the target is small and bounded."""
import copy

from .. import gen, report, wire
from .common import viol, h, compact_case

ID = 'C19'
CLAIM = ('connection and byte accounting at the simulated peers under seeded server behaviours (cooperative, throttling from connection k, silent, closing, refusing; every moduli '
         'policy style; several host-key lists; probe-phase faults), with and without --skip-rate-test, across RTT regimes and clock perturbations (coarse clock, forward and backward jumps of the wall clock) '
         'during the 1.5 s rate window: number of connections, concurrency, which connections carry key-exchange requests, sockets left open at exit, trip-wires for the DoS features')
TRUST = ('trusted base: the connection log of the simulated network (every SYN is counted at the peer), the independent decoder that types every packet the tool sends, the virtual '
         'clock; multiprocessing.Process is a trip-wire, DHEat.run is not simulated')
TECHNIQUE = 'deterministic simulation with connection/byte accounting at the peer, virtual clock for the rate window, admission-policy and probe-phase fault injection'
LEVEL = 'exploration'
BUDGET = {'quick': 200, 'thorough': 2400}
NCASES = {'quick': 1200, 'thorough': 8000}
RULE = ('cases: server profile (host-key list, kex list incl. GEX algorithms and moduli policy; a fifth of them listing one name up to 13 times), admission policy {always, throttle/silent/close/refuse/blackhole from connection k}, '
        'rate test on/off, RTT in {0.04 ms .. 200 ms}, clock {fine, 10 ms quanta, forward jump, backward jump}, optional probe-phase fault. non-trivial: >= 2 connections were opened; distinct by '
        '(behaviour class, admission policy, RTT regime, rate test on/off, number of probe types).')
ASSUMPTIONS = ['bound: 1 (+1 SSH-1 fallback) + one per advertised probe-able host-key type (RSA family once when no fault or admission policy disturbs the probes, else once per advertised member) + 9 per advertised GEX algorithm (+ up to 1 per host-key type again is NOT allowed) '
               '+ 38 for the rate test (at most 3 at once) when it runs', 'sockets still referenced only by in-flight simulator events are finalised before counting']

PROBE_TYPES = ['ssh-rsa-cert-v01@openssh.com', 'rsa-sha2-256-cert-v01@openssh.com', 'rsa-sha2-512-cert-v01@openssh.com', 'ssh-ed25519', 'ssh-ed25519-cert-v01@openssh.com',
               'ssh-ed448', 'ecdsa-sha2-nistp256', 'ecdsa-sha2-nistp384', 'ecdsa-sha2-nistp521', 'ecdsa-sha2-nistp256-cert-v01@openssh.com', 'ecdsa-sha2-nistp384-cert-v01@openssh.com',
               'ecdsa-sha2-nistp521-cert-v01@openssh.com', 'ssh-dss', 'ssh-dss-cert-v01@openssh.com']
DH_FOR_RATE = None


def cases(seed, tier):
    for i in range(NCASES[tier]):
        rng = gen.case_rng(seed, ID, i)
        base = rng.choice(['modern', 'hardened', 'old', 'dropbear', 'rand'])
        if base == 'rand':
            p = gen.rand_profile(rng, allow_odd=False)
        else:
            p = gen.archetype(base)
        if rng.random() < 0.3:
            p['kex'] = [k for k in p['kex'] if k not in gen.GEX] + rng.sample(list(gen.GEX), rng.randrange(1, 3))
            p['gex'] = {'sizes': sorted(rng.sample([1024, 1536, 2048, 3072, 4096, 8192], rng.randrange(1, 4))), 'style': rng.choice(['strict', 'roundup', 'openssh']),
                        'grp_min': rng.choice([1024, 2048])}
        if rng.random() < 0.08:
            p = {'banner': 'SSH-1.5-OpenSSH_3.0', 'ssh2': False, 'ssh1': {'cmask': 0x48, 'amask': 0x0c, 'hkey_bits': 1024, 'skey_bits': 768}}
        r3 = gen.case_rng(seed, ID, i, 'mismatch')
        if r3.random() < 0.04:
            # a peer that answers every identification line, SSH-2 or SSH-1, with the version-mismatch notice and hangs up
            p = {'banner': r3.choice(['SSH-1.5-LegacyGate_1.0', 'SSH-1.99-Gate_2', 'SSH-2.0-Gate_3']), 'ssh2': False, 'ssh1': None}
        r2 = gen.case_rng(seed, ID, i, 'repeats')
        if 'kex' in p and r2.random() < 0.2:
            # a peer may list a name more than once; the footprint is per algorithm / key type, not per list entry
            for cat in r2.choice([['kex'], ['key'], ['kex', 'key']]):
                names = [n for n in p[cat] if n in gen.GEX] or list(p[cat])
                if names:
                    n = r2.choice(names)
                    reps = [n] * r2.choice([1, 2, 5, 12])
                    at = r2.randrange(len(p[cat]) + 1)
                    p[cat] = p[cat][:at] + reps + p[cat][at:] if r2.random() < 0.5 else p[cat] + reps
        adm = rng.choice(['always', 'always', 'throttle', 'silent', 'close', 'refuse_after', 'blackhole_after'])
        if adm != 'always':
            p['admission'] = {'mode': adm, 'after': rng.choice([1, 2, 3, 5, 8, 12, 20, 30])}
        skip = rng.random() < 0.4
        knobs = {'cpu_cost': rng.choice([[1, 5], [1, 50], [10, 200]])}
        clock = rng.choice(['fine', 'fine', 'coarse', 'jump'])
        if clock == 'coarse':
            knobs['quantum_us'] = 10000
        elif clock == 'jump':
            knobs['clock_jump'] = [rng.randrange(1000, 400000), rng.choice([500000, 2000000, 40000000])]
        if clock == 'jump' and r2.random() < 0.4:
            knobs['clock_jump'][1] = -knobs['clock_jump'][1]      # the wall clock is stepped backwards during the audit
            clock = 'jump_back'
        c = {'profile': p, 'skip': skip, 'adm': adm, 'clock': clock, 'knobs': knobs, 'net': {'rtt_us': rng.choice([40, 200, 1000, 8000, 60000, 200000])},
             'opts': rng.choice([['-n'], ['-j'], ['-n', '-v'], ['-n', '-P', 'Hardened OpenSSH Server v9.9 (version 1)']]), 'timeout': rng.choice([1, 2, 5]), 'pseed': rng.getrandbits(32)}
        if gen.case_rng(seed, ID, i, 'via').random() < 0.12:
            c['via_file'] = True
        if gen.case_rng(seed, ID, i, 'addrs').random() < 0.12:
            # the name resolves to several addresses, each with the same service behind it: the footprint is that of one audit,
            # on one address, not one per address
            c['multi_addr'] = gen.case_rng(seed, ID, i, 'addrs2').choice([[[4, '192.0.2.10'], [4, '192.0.2.11']], [[4, '192.0.2.10'], [4, '192.0.2.11'], [4, '192.0.2.12']],
                                                                          [[4, '192.0.2.10'], [6, '2001:db8::10']], [[6, '2001:db8::10'], [4, '192.0.2.10'], [4, '192.0.2.11']]])
        if rng.random() < 0.3:
            kind = rng.choice(['truncate_stall', 'truncate_close', 'garbage', 'truncate_reset', 'wrongtype', 'badblob', 'late'])
            f = {'conn': rng.randrange(1, 10), 'msg': rng.choice(['banner', 'kexinit', 'reply', 'reply', 'group']), 'kind': kind, 'off': rng.choice([0, 7, 50]), 'n': 30}
            if kind == 'wrongtype':
                f = {'conn': f['conn'], 'msg': 'reply', 'kind': 'corrupt', 'off': 5, 'hex': rng.choice(['14', '15', '32', '63'])}
            elif kind == 'late':
                # an intact message that arrives after the tool's timeout, on a connection the peer keeps open
                f = {'conn': f['conn'], 'msg': f['msg'], 'kind': 'delay', 'us': int(c['timeout'] * 1_000_000 * rng.choice([1.1, 1.6, 2.5]))}
            elif kind == 'badblob':
                f = {'conn': f['conn'], 'msg': 'reply', 'kind': 'corrupt', 'off': 10, 'hex': 'ffffff'}
            c['faults'] = [f]
        yield c


def sample(case):
    return compact_case(case)


def builtin_policy_names():
    from ssh_audit.builtin_policies import BUILTIN_POLICIES
    return list(BUILTIN_POLICIES)


def run_case(case, ctx):
    out, keys = [], []
    p = case['profile']
    opts = list(case['opts'])
    if '-P' in opts:
        names = [n for n in builtin_policy_names() if 'Server' in n]
        if opts[opts.index('-P') + 1] not in names:
            opts[opts.index('-P') + 1] = sorted(names)[-1]
    argv = opts + (['--skip-rate-test'] if case['skip'] else []) + ['-t', str(case['timeout'])] + (['-T', '{DIR}/targets.txt'] if case.get('via_file') else ['srv.example'])
    plan = gen.server_plan(case['pseed'], argv, p, port=22, net=case['net'], knobs=case['knobs'], faults=case.get('faults'))
    if case.get('via_file'):
        # the same audit requested through a one-line targets file: the footprint is that of the audit, however the target was named
        plan['dir'] = ctx.scratch()
        plan['files'] = {'targets.txt': 'srv.example\n'}
    if case.get('multi_addr'):
        plan['world']['hosts']['srv.example'] = {'answers': case['multi_addr']}
        for _f, a in case['multi_addr']:
            if a != '192.0.2.10':
                plan['world']['servers'].append({'ip': a, 'port': 22, 'profile': p})
    plan['knobs']['max_events'] = 3_000_000
    plan['knobs']['max_conns'] = 1500      # far above any legitimate footprint; keeps a runaway rate test cheap to simulate
    rec = ctx.run(plan, real_timeout=120.0)
    if rec.get('harness_error'):
        return {'violations': [], 'keys': []}
    if rec['outcome'] == 'CONNS_EXCEEDED':
        phase = 'rate test' if not case['skip'] else 'probes'
        out.append(viol('C19 too many connections (%s; admission=%s)' % (phase, case['adm']), 'adm=%s after=%s rtt=%dus: more than 1500 connections opened (simulation stopped there)' % (
            case['adm'], p.get('admission', {}).get('after'), case['net']['rtt_us'])))
        return {'violations': out, 'keys': [h('runaway', case['adm'], case['net']['rtt_us'])]}
    if rec['outcome'] != 'exit':
        out.append(viol('C19 run did not terminate (%s)' % rec['outcome'], 'adm=%s' % case['adm']))
        return {'violations': out, 'keys': []}
    srv = rec['servers'][0]
    if case.get('multi_addr'):
        # whatever address the tool picks, the service as a whole is what the bounds are about
        srv = dict(srv, conns=[c for s_ in rec['servers'] for c in s_['conns']], syns=sum(s_['syns'] for s_ in rec['servers']), peak_live=sum(s_['peak_live'] for s_ in rec['servers']))
    ssh1 = not p.get('ssh2', True)
    keylist = [wire.shown(x) for x in p.get('key', [])]
    kexlist = [wire.shown(x) for x in p.get('kex', [])]
    # one connection per probed host-key type; the three RSA names share one key, so a cooperative server is asked once for the family,
    # but when that probe fails the next advertised member is a host-key type of its own and is tried as well
    fam = len(set(a for a in keylist if a in gen.RSA_FAMILY))
    undisturbed = not case.get('faults') and case['adm'] == 'always'
    ntypes = len([t for t in PROBE_TYPES if t in keylist]) + (min(fam, 1) if undisturbed else fam)
    ngex = len([a for a in gen.GEX if a in kexlist])
    rate_possible = (not case['skip']) and not ssh1
    base_bound = 1 + (1 if ssh1 else 0) + ntypes + 9 * ngex
    bound = base_bound + (38 if rate_possible else 0)
    syns = srv['syns']
    ctx_txt = 'adm=%s after=%s skip=%s rtt=%dus clock=%s ntypes=%d ngex=%d faults=%r' % (case['adm'], p.get('admission', {}).get('after'), case['skip'], case['net']['rtt_us'],
                                                                                       case['clock'], ntypes, ngex, case.get('faults'))
    # classify connections by what the tool sent on them
    kexconns = 0
    rate_like = 0
    for c in srv['conns']:
        types = [f.get('type') for f in c['frames'] if 'type' in f]
        n30 = types.count(30) + types.count(34)
        n32 = types.count(32)
        if types.count(20) > 1:
            out.append(viol('C19 more than one KEXINIT on one connection (connection reused for a second probe)', '%s\nframes=%r' % (ctx_txt, types)))
        if n30 > 1 or n32 > 1:
            out.append(viol('C19 more than one key-exchange request on one connection', '%s\nframes=%r' % (ctx_txt, types)))
        if n30:
            kexconns += 1
        got_banner = any(r[0] == 'banner' for r in c['rx'])
        if not got_banner and not types:
            rate_like += 1
    if kexconns > ntypes + 9 * ngex:
        out.append(viol('C19 more key-exchange computation requests than probe connections allow', '%s\nkexconns=%d' % (ctx_txt, kexconns)))
    if syns > bound:
        phase = 'rate test' if rate_possible else 'probes'
        out.append(viol('C19 too many connections (%s; admission=%s)' % (phase, case['adm']), '%s\nSYNs seen by the server: %d, bound %d (= %d + %d)' % (
            ctx_txt, syns, bound, base_bound, bound - base_bound)))
    if case['skip'] and rate_like > 0 and not case.get('faults') and case['adm'] == 'always':
        out.append(viol('C19 banner-only connections although --skip-rate-test was given', '%s\nrate-like connections: %d' % (ctx_txt, rate_like)))
    maxc = 3 if rate_possible else (2 if ssh1 else 1)
    if srv['peak_live'] > maxc:
        out.append(viol('C19 more concurrent connections than allowed', '%s\npeak at the server=%d allowed=%d' % (ctx_txt, srv['peak_live'], maxc)))
    if rec['open_sockets']:
        out.append(viol('C19 sockets still open at exit', '%s\nopen=%d' % (ctx_txt, rec['open_sockets'])))
    if rec['tripwires']:
        out.append(viol('C19 DoS machinery reached without --dheat', repr(rec['tripwires'])))
    if 'Performing non-disruptive rate test' in rec['stdout']:
        out.append(viol('C19 interactive rate test ran without --conn-rate-test', ctx_txt))
    # every connection the tool opened must have been closed by it
    notclosed = [c['ordinal'] for c in srv['conns'] if not c.get('tool_closed')]
    if notclosed:
        out.append(viol('C19 connection never closed by the tool', '%s\nconnections %r' % (ctx_txt, notclosed[:10])))
    if rec['nconns'] >= 2:
        keys.append(h('ssh1' if ssh1 else ('gex' if ngex else 'plain'), case['adm'], p.get('admission', {}).get('after'), case['net']['rtt_us'], case['skip'], ntypes, ngex, case['clock']))
    return {'violations': out, 'keys': keys, 'counters': {'syns': syns, 'adm_' + case['adm']: 1, 'rate_test_runs': 1 if rate_possible else 0}}


def shrink(case):
    if case.get('faults'):
        c = copy.deepcopy(case)
        c['faults'] = None
        yield c
    if case['clock'] != 'fine':
        c = copy.deepcopy(case)
        c['clock'] = 'fine'
        c['knobs'] = {'cpu_cost': case['knobs'].get('cpu_cost', [1, 50])}
        yield c
    if case['net']['rtt_us'] != 8000:
        c = copy.deepcopy(case)
        c['net'] = {'rtt_us': 8000}
        yield c
    if case['opts'] != ['-n']:
        c = copy.deepcopy(case)
        c['opts'] = ['-n']
        yield c
    for cat in ('key', 'kex', 'enc', 'mac'):
        lst = case['profile'].get(cat) or []
        if len(lst) > 1:
            for i in range(len(lst)):
                c = copy.deepcopy(case)
                del c['profile'][cat][i]
                yield c
