"""C18 - the tool connects to, and reports on, exactly the target that was named."""
import copy
import ipaddress
import re

from .. import gen, report, wire
from .common import viol, h, compact_case
from . import multi

ID = 'C18'
CLAIM = ('seeded target spellings (name, IPv4, compressed / full IPv6, host:port, [IPv6]:port, [IPv6]) x ports (1, 22, 2222, 65535, 0, 65536, random) x {command line, targets file '
         'with blank and whitespace lines} x -p absent/present x {-4, -6, -46, -64, none} x simulated resolver answers (v4-only, v6-only, mixed in both orders, error) x which '
         'address accepts; every resolver query and every connection attempt of every phase (handshake, probes, rate test) is compared with the named endpoint, families and order; '
         'labels in JSON / policy / multi-target output are compared with the target; out-of-range ports must be rejected with no resolver query and no connection')
TRUST = ('trusted base: the simulated resolver and the connection-attempt log of the simulated network (every SYN, whatever its outcome); an explicit port in the spelling wins over '
         '-p ("the port option as default")')
TECHNIQUE = 'deterministic simulation with an intercepting resolver/connect layer; reference model of the named endpoint; multi-phase connection-attempt log as the history'
LEVEL = 'exploration'
BUDGET = {'quick': 200, 'thorough': 2400}
NCASES = {'quick': 2100, 'thorough': 14000}
RULE = ('non-trivial: a resolver query or a rejection happened; distinct by (spelling class, source, -p, family option, answer shape, accepting address).')
ASSUMPTIONS = ['single-target text reports carry no label; labels are checked in JSON, policy and multi-target output']

V4 = ['192.0.2.7', '198.51.100.20', '10.1.2.3']
V6 = [('2001:db8::7', '2001:0db8:0000:0000:0000:0000:0000:0007'), ('fd00::1:2', 'fd00:0:0:0:0:0:1:2'), ('::1', '0:0:0:0:0:0:0:1')]
FAMOPTS = [[], [], ['-4'], ['-6'], ['-46'], ['-64'], ['-4', '-6'], ['-6', '-4'], ['-4', '-4'], ['-66'], ['-6', '--ipv6'], ['--ipv4', '-4'], ['-4', '-6', '-4'], ['-646']]


def cases(seed, tier):
    for i in range(NCASES[tier]):
        rng = gen.case_rng(seed, ID, i)
        kind = rng.choice(['name', 'name', 'v4', 'v6c', 'v6f'])
        port = rng.choice([None, None, 22, 2222, 1, 65535, rng.randrange(1, 65536), 0, 65536, 99999])
        answers = []
        if kind == 'name':
            host = rng.choice(['srv.example', 'a-b.c.example.org', 'localhost', 'xn--mnchen-3ya.example'])
            shape = rng.choice(['v4', 'v6', 'v4v6', 'v6v4', 'v4v4', 'error'])
            v4s, v6s = rng.sample(V4, 2), rng.sample([c for c, _ in V6], 2)
            answers = {'v4': [[4, v4s[0]]], 'v6': [[6, v6s[0]]], 'v4v6': [[4, v4s[0]], [6, v6s[0]]], 'v6v4': [[6, v6s[0]], [4, v4s[0]]], 'v4v4': [[4, v4s[0]], [4, v4s[1]]], 'error': None}[shape]
            spelled_host = host
        elif kind == 'v4':
            host = rng.choice(V4)
            shape = 'literal4'
            spelled_host = host
        else:
            c, f = rng.choice(V6)
            host = c if kind == 'v6c' else f
            shape = 'literal6'
            spelled_host = host
        if port is None:
            spelling = rng.choice([spelled_host, '[%s]' % spelled_host]) if kind.startswith('v6') else spelled_host
            if spelling.startswith('[') and rng.random() < 0.5:
                spelling = spelled_host
        else:
            spelling = '[%s]:%d' % (spelled_host, port) if kind.startswith('v6') else '%s:%d' % (spelled_host, port)
        popt = rng.choice([None, None, 2200, 22, 65535, 0, 70000])
        source = rng.choice(['cmd', 'cmd', 'file'])
        refuse_first = rng.random() < 0.2
        mode = rng.choice(['text', 'json', 'policy'])
        c = {'kind': kind, 'host': host, 'port': port, 'spelling': spelling, 'popt': popt, 'source': source, 'fam': rng.choice(FAMOPTS), 'shape': shape, 'answers': answers,
             'refuse_first': refuse_first, 'mode': mode, 'skip_rate': rng.random() < 0.5, 'pseed': rng.getrandbits(32)}
        if source == 'file':
            c['file_extra'] = rng.choice([[], [''], ['   '], ['', '\t'], []])
            c['threads'] = rng.choice([1, 2])
            if rng.random() < 0.5:
                # a second target in the same file, with or without a port of its own, before or after
                c['other'] = {'host': 'other.example', 'ip': '203.0.113.9', 'port': rng.choice([None, None, 2022, 22, 8022]), 'first': rng.random() < 0.5}
            elif gen.case_rng(seed, ID, i, 'same-host').random() < 0.4:
                # the same host a second time, on another port of its own
                c['other'] = {'same_host': True, 'port': rng.choice([2022, 8022, 10022]), 'first': rng.random() < 0.5}
        yield c


def sample(case):
    return compact_case(case)


def named(case):
    """Reference: (host, port, valid) the spelling names."""
    port = case['port'] if case['port'] is not None else (case['popt'] if case['popt'] is not None else 22)
    valid = 1 <= port <= 65535 and (case['popt'] is None or 1 <= case['popt'] <= 65535)
    return case['host'], port, valid


def fam_pref(case):
    seq = []
    for o in case['fam']:
        flags = {'--ipv4': '4', '--ipv6': '6'}.get(o, o[1:])
        for ch in flags:
            if ch in '46' and int(ch) not in seq:
                seq.append(int(ch))
    return seq


def run_case(case, ctx):
    out, keys = [], []
    host, port, valid = named(case)
    pref = fam_pref(case)
    prof = gen.archetype('hardened')
    prof['kex'] = ['curve25519-sha256', 'diffie-hellman-group14-sha256']
    prof['key'] = ['ssh-ed25519']
    prof['keys'] = {'ssh-ed25519': {}}
    if gen.case_rng(case['pseed'], ID, 'ssh1-only').random() < 0.2 and case['mode'] != 'policy':
        # a peer that speaks SSH-1 only is reported on through another code path: same labels expected
        prof = {'banner': 'SSH-1.5-OpenSSH_3.0', 'ssh2': False, 'ssh1': {'cmask': 0x48, 'amask': 0x0c, 'hkey_bits': 1024, 'skey_bits': 768}}
    hosts = {}
    addrs = []
    if case['kind'] == 'name':
        if case['answers'] is None:
            hosts[host] = {'gaierror': True}
        else:
            hosts[host] = {'answers': case['answers']}
            addrs = [a for _, a in case['answers']]
    else:
        addrs = [str(ipaddress.ip_address(host))] if case['kind'] != 'v6f' else [host, str(ipaddress.ip_address(host))]
    servers = []
    lport = port if 1 <= port <= 65535 else 22
    for j, a in enumerate(dict.fromkeys(addrs)):
        if case['refuse_first'] and j == 0 and len(addrs) > 1:
            continue
        servers.append({'ip': a, 'port': lport, 'profile': prof, 'name': 'srv%d' % j})
    opts = {'text': ['-n'], 'json': ['-j'], 'policy': ['-n', '-P', 'Hardened OpenSSH Server v9.9 (version 1)']}[case['mode']]
    from ssh_audit.builtin_policies import BUILTIN_POLICIES
    if case['mode'] == 'policy' and opts[-1] not in BUILTIN_POLICIES:
        opts[-1] = sorted(n for n in BUILTIN_POLICIES if 'Server' in n)[-1]
    argv = list(opts) + list(case['fam']) + (['--skip-rate-test'] if case['skip_rate'] else []) + ['-t', '2']
    if case['popt'] is not None:
        argv += ['-p', str(case['popt'])]
    plan = {'seed': case['pseed'], 'world': {'hosts': hosts, 'servers': servers}, 'net': {'rtt_us': 300}, 'knobs': {'max_conns': 400}}
    other = case.get('other') if valid else None
    same = None
    if other and other.get('same_host'):
        same, other = other, None
        if same['port'] == lport or case['kind'] == 'v6f':
            same = None
        else:
            for srv in list(servers):
                servers.append({'ip': srv['ip'], 'port': same['port'], 'profile': prof, 'name': srv['name'] + '-second-port'})
    if other:
        oport = other['port'] if other['port'] is not None else (case['popt'] if case['popt'] is not None else 22)
        hosts[other['host']] = {'answers': [[4, other['ip']]]}
        servers.append({'ip': other['ip'], 'port': oport, 'profile': prof, 'name': 'other'})
    if case['source'] == 'file':
        lines = list(case.get('file_extra', []))
        mine = [case['spelling']]
        if same:
            sp = case['spelling']
            base = sp[:sp.rindex(':')] if case['port'] is not None and ':' in sp and not sp.endswith(']') else sp
            if ':' in base and not base.startswith('['):
                base = '[%s]' % base
            sspell = '%s:%d' % (base, same['port'])
            mine = [sspell, sp] if same['first'] else [sp, sspell]
        if other:
            ospell = other['host'] if other['port'] is None else '%s:%d' % (other['host'], other['port'])
            mine = [ospell, case['spelling']] if other['first'] else [case['spelling'], ospell]
        body = '\n'.join(lines[:1] + mine + lines[1:]) + '\n'
        plan['dir'] = ctx.scratch()
        plan['files'] = {'targets.txt': body}
        argv += ['-T', '{DIR}/targets.txt', '--threads', str(case.get('threads', 1))]
    else:
        argv += [case['spelling']]
    plan['argv'] = argv
    rec = ctx.run(plan)
    if rec.get('harness_error'):
        return {'violations': [], 'keys': []}
    ctx_txt = 'argv=%r%s\nnamed endpoint: host=%r port=%r valid=%s; family preference %r; resolver answers %r\nresolver log=%r\nconnect log=%r\nstdout head: %s' % (
        argv, (' file=%r' % plan['files']['targets.txt']) if case['source'] == 'file' else '', host, port, valid, pref, case['answers'], rec['resolver'][:6], rec['connects'][:8],
        rec['stdout'][:300].replace('\n', ' | '))
    src = case['source']
    if rec['outcome'] != 'exit':
        out.append(viol('C18 run did not terminate (%s)' % rec['outcome'], ctx_txt))
        return {'violations': out, 'keys': []}
    if not valid:
        if rec['resolver'] or rec['connects']:
            out.append(viol('C18 out-of-range port: a resolver query or connection was made (%s)' % src, ctx_txt))
        if rec['status'] == 0:
            out.append(viol('C18 out-of-range port accepted with status 0 (%s)' % src, ctx_txt))
        keys.append(h('invalid', src, case['popt'] is not None, case['port']))
        return {'violations': out, 'keys': keys}
    # ---- resolver queries: only for the named host, with the family the option asks for
    if same:
        ports = {cport for (_f, ip, cport, _o) in rec['connects'] if ip in addrs}
        if (lport in ports) != (same['port'] in ports):
            out.append(viol('C18 the same host listed on two ports: one of the two endpoints was never contacted', 'lines %r: ports contacted %r\n%s' % (mine, sorted(ports), ctx_txt)))
        rec = dict(rec, connects=[c for c in rec['connects'] if not (c[1] in addrs and c[2] == same['port'])])
    if other:
        for (fam, ip, cport, outcome) in rec['connects']:
            if ip == other['ip'] and cport != oport:
                out.append(viol('C18 a target of the file is contacted on another port than its own line / the -p default names', 'line %r -> port %r, contacted %s:%s\n%s' % (
                    ospell, oport, ip, cport, ctx_txt)))
                break
        if (not pref or 4 in pref) and not any(ip == other['ip'] for (_f, ip, _p, _o) in rec['connects']):
            out.append(viol('C18 a target listed in the file was never contacted', '%r\n%s' % (ospell, ctx_txt)))
        rec = dict(rec, resolver=[q for q in rec['resolver'] if q[0] not in (other['host'], other['ip'])], connects=[c for c in rec['connects'] if c[1] != other['ip']])
    for (qh, qp, qf) in rec['resolver']:
        if qh != host and qh not in addrs:
            out.append(viol('C18 resolver asked for a host that was not named (%s, -p %s)' % (src, 'given' if case['popt'] is not None else 'absent'), 'asked %r\n%s' % (qh, ctx_txt)))
            break
    want_fams = {4: {2}, 6: {10}}
    allowed = set()
    for f in (pref or [4, 6]):
        allowed |= want_fams[f]
    # ---- connection attempts: only to addresses of the named host, the named port, requested families, requested order
    legit = set(addrs)
    for (fam, ip, cport, outcome) in rec['connects']:
        if ip not in legit:
            out.append(viol('C18 connection attempt to an address that does not belong to the named host', 'to %s:%s\n%s' % (ip, cport, ctx_txt)))
            break
        if cport != port:
            out.append(viol('C18 connection attempt to another port than the one named (%s, -p %s)' % (src, 'given' if case['popt'] is not None else 'absent'), 'to %s:%s\n%s' % (ip, cport, ctx_txt)))
            break
        af = 2 if ':' not in ip else 10
        if af not in allowed:
            out.append(viol('C18 connection attempt to an address family that was not requested (%s)' % ' '.join(case['fam']), 'to %s\n%s' % (ip, ctx_txt)))
            break
    if len(pref) == 2 and case['kind'] == 'name' and case['answers'] and rec['connects']:
        fams_avail = [f for f, _ in case['answers']]
        if 4 in fams_avail and 6 in fams_avail:
            first_ip = rec['connects'][0][1]
            first_f = 6 if ':' in first_ip else 4
            if first_f != pref[0]:
                out.append(viol('C18 first connection not to the preferred address family (%s)' % ' '.join(case['fam']), ctx_txt))
            for (fam, ip, cport, outcome) in rec['connects']:
                f = 6 if ':' in ip else 4
                if f != pref[0] and rec['connects'][0][3] == 'ok':
                    out.append(viol('C18 a later phase connects to the non-preferred family although the preferred one works (%s)' % ' '.join(case['fam']), 'to %s\n%s' % (ip, ctx_txt)))
                    break
    # ---- labels
    lab_hostport = '%s:%d' % (host, port)
    if rec['connects'] and any(c[3] == 'ok' for c in rec['connects']):
        # the named target accepted a connection and the peer is cooperative: a report has to come out, with its label
        if rec['outcome'] != 'exit' or rec['status'] not in (0, 1, 2, 3) or 'Traceback (most recent call last)' in rec['stdout'] + rec['stderr']:
            out.append(viol('C18 no report for a named target that accepts connections (status %s, %s)' % (rec['status'], ' '.join(case['fam']) or 'no family option'),
                            '%s\nstderr tail: %s' % (ctx_txt, rec['stderr'][-400:])))
            return {'violations': out, 'keys': keys}
        if case['mode'] == 'json':
            doc, err = report.parse_json(rec['stdout'])
            if doc is None or (isinstance(doc, dict) and 'target' not in doc):
                out.append(viol('C18 JSON report carries no target label', ctx_txt))
            if doc is not None:
                if isinstance(doc, list):
                    cand = [x for x in doc if isinstance(x, dict) and not (other and str(x.get('target', '')).startswith(other['host']))]
                    d = cand[0] if cand else None
                    if same:
                        d = next((x for x in cand if x.get('target') == lab_hostport), d)
                else:
                    d = doc
                if isinstance(d, dict) and 'target' in d and d['target'] != lab_hostport:
                    out.append(viol('C18 JSON target label differs from the named target', 'label %r want %r\n%s' % (d['target'], lab_hostport, ctx_txt)))
        elif case['mode'] == 'policy':
            hosts_shown = re.findall(r'(?m)^Host:\s+(\S+)', report.strip_ansi(rec['stdout']))
            if other:
                hosts_shown = [x for x in hosts_shown if not x.startswith(other['host'])]
            m = re.match(r'(\S+)', hosts_shown[0]) if hosts_shown else None
            want = host if port == 22 else ('[%s]:%d' % (host, port) if ':' in host else '%s:%d' % (host, port))
            if same and want in hosts_shown:
                m = None
            if not hosts_shown:
                out.append(viol('C18 policy report carries no target label', ctx_txt))
            if m and m.group(1) != want:
                out.append(viol('C18 policy report label differs from the named target', 'label %r want %r\n%s' % (m.group(1), want, ctx_txt)))
        elif src == 'file' and not other:
            m = re.search(r'(?m)^\(gen\) target: (\S+)', report.strip_ansi(rec['stdout']))
            want = host if port == 22 else ('[%s]:%d' % (host, port) if ':' in host else '%s:%d' % (host, port))
            if same and want in re.findall(r'(?m)^\(gen\) target: (\S+)', report.strip_ansi(rec['stdout'])):
                m = None
            if m is None and not same:
                out.append(viol('C18 multi-target report carries no target label', ctx_txt))
            if m and m.group(1) != want:
                out.append(viol('C18 multi-target label differs from the named target', 'label %r want %r\n%s' % (m.group(1), want, ctx_txt)))
    if rec['resolver'] or rec['connects']:
        spcls = case['kind'] + ('+port' if case['port'] is not None else '') + ('+br' if case['spelling'].startswith('[') else '')
        acc = 'none' if not any(c[3] == 'ok' for c in rec['connects']) else ('first' if rec['connects'][0][3] == 'ok' else 'later')
        keys.append(h(spcls, src, case['popt'] is not None, tuple(case['fam']), case['shape'], acc))
    return {'violations': out, 'keys': keys, 'counters': {'src_' + src: 1}}


def shrink(case):
    if case['fam']:
        c = copy.deepcopy(case)
        c['fam'] = []
        yield c
    if case['popt'] is not None:
        c = copy.deepcopy(case)
        c['popt'] = None
        yield c
    if case.get('file_extra'):
        c = copy.deepcopy(case)
        c['file_extra'] = []
        yield c
    if case['mode'] != 'text':
        c = copy.deepcopy(case)
        c['mode'] = 'text'
        yield c
    if not case['skip_rate']:
        c = copy.deepcopy(case)
        c['skip_rate'] = True
        yield c
    if case['refuse_first']:
        c = copy.deepcopy(case)
        c['refuse_first'] = False
        yield c
