"""C13 - recommendations are consistent with the ratings shown."""
import copy
import re

from .. import gen, report, wire, refmodels
from .common import viol, h, compact_case, CATS

ID = 'C13'
CLAIM = ('seeded peers (archetypes and seeded name-lists, with probe-derived size notes, optionally with a probe made to fail) x banners of every recognised product at versions '
         'around every first-appeared version in the database, plus unrecognised products; the recommendations of one report (text and JSON) are checked against the ratings shown in '
         'the same report and the database read as data. Workload only: no schedule or fault of its own beyond probe-derived state')
TRUST = ('trusted base: the report parsers; MASTER_DB as data; version availability computed with component-wise numeric comparison (banner versions are restricted to those where '
         'numeric and textual order agree, the multi-digit cases belong to C14)')
TECHNIQUE = 'deterministic simulation as the end-to-end observation point; history check over one report against the database-as-data'
LEVEL = 'exploration'
BUDGET = {'quick': 200, 'thorough': 2400}
NCASES = {'quick': 1000, 'thorough': 9000}
RULE = ('cases: (product, version around a first-appeared version, patch suffix) x seeded advertised lists. non-trivial: recognised or unrecognised software with a non-empty rating '
        'set; distinct by (product, version, advertised-set hash).')
ASSUMPTIONS = ['"outside the operator\'s control" = the report carries the OpenSSH 2048-bit GEX fallback note for that algorithm',
               'an algorithm is known in the identified version if its database entry has no version information or lists the product with a version <= the identified one (server side)']

OPENSSH_BUG_NOTE = 'A bug in OpenSSH causes it to fall back to a 2048-bit modulus regardless of server configuration'
PREFIX = {'OpenSSH': '', 'Dropbear SSH': 'd', 'libssh': 'l1'}


def product_versions():
    out = {'OpenSSH': set(), 'Dropbear SSH': set(), 'libssh': set()}
    for cat in CATS:
        for n, desc in gen.db()['ssh2'][cat].items():
            for field in desc[0][:3]:
                if not field:
                    continue
                for v in field.split(','):
                    v = v.rstrip('C')
                    if v.startswith('d'):
                        out['Dropbear SSH'].add(v[1:])
                    elif v.startswith('l1'):
                        out['libssh'].add(v[2:])
                    elif v:
                        out['OpenSSH'].add(v)
    return out


def safe_version(product, b, allv):
    """Numeric and textual order agree for b against every database version of the product."""
    for d in allv[product]:
        num = refmodels.cmp_numeric(b, d)
        txt = (b > d) - (b < d)
        if num != txt:
            return False
    return True


def banner_for(product, version, rng):
    if product == 'OpenSSH':
        return 'SSH-2.0-OpenSSH_%s%s' % (version, rng.choice(['', 'p1', 'p1 Debian-5', ' FreeBSD-20200214', 'p2']))
    if product == 'Dropbear SSH':
        return 'SSH-2.0-dropbear_%s' % version
    if product == 'libssh':
        return rng.choice(['SSH-2.0-libssh-%s', 'SSH-2.0-libssh_%s']) % version
    if product == 'TinySSH':
        return 'SSH-2.0-tinyssh_%s' % version
    return 'SSH-2.0-%s' % version


def cases(seed, tier):
    allv = product_versions()
    for i in range(NCASES[tier]):
        rng = gen.case_rng(seed, ID, i)
        r = rng.random()
        if r < 0.82:
            product = rng.choice(['OpenSSH', 'OpenSSH', 'OpenSSH', 'Dropbear SSH', 'libssh'])
            base = rng.choice(sorted(allv[product]))
            cands = [base]
            t, _ = refmodels.split_version(base)
            if t:
                lst = list(t)
                up, down = lst[:], lst[:]
                up[-1] += 1
                cands.append('.'.join(map(str, up)))
                if down[-1] > 0:
                    down[-1] -= 1
                    cands.append('.'.join(map(str, down)))
                elif len(down) > 1 and down[-2] > 0:
                    down[-2] -= 1
                    down[-1] = 9
                    cands.append('.'.join(map(str, down)))
            cands = [c for c in cands if safe_version(product, c, allv)] or [base]
            version = rng.choice(cands)
            banner = banner_for(product, version, rng)
        elif r < 0.9:
            product, version = 'TinySSH', rng.choice(['noversion', '20190101'])
            banner = banner_for(product, version, rng)
        else:
            product, version = None, None
            banner = rng.choice(['SSH-2.0-Sim_1.0', 'SSH-2.0-RomSShell_4.62', 'SSH-2.0-Cisco-1.25', 'SSH-2.0-mpSSH_0.2.1', 'SSH-2.0-Go', 'SSH-2.0-PuTTY_Release_0.79', 'SSH-2.0-lancom'])
        if rng.random() < 0.5:
            prof = gen.archetype(rng.choice(['modern', 'hardened', 'old', 'dropbear']))
            for cat in CATS:
                if rng.random() < 0.5:
                    extra = rng.sample(gen.db_names(cat), rng.randrange(0, 4))
                    prof[cat] = prof[cat] + [x if not x.endswith('-*') else gen.gss_name(rng, prefix=x[:-2]) for x in extra if x not in prof[cat]]
            prof['keys'] = gen.rand_keys(rng, prof['key'])
        else:
            prof = gen.rand_profile(rng, allow_odd=True)
        prof['banner'] = banner
        r3 = gen.case_rng(seed, ID, i, 'repeats')
        if r3.random() < 0.12 and all(prof.get(c_) for c_ in CATS):
            # a peer may list a name several times: the rating (and so the level of the recommendation) is that of the algorithm, not of
            # the number of times it is listed
            cat = r3.choice(['enc', 'enc', 'mac', 'kex', 'key'])
            pool = list(prof[cat])
            if cat == 'enc':
                pool += ['chacha20-poly1305@openssh.com', 'aes128-cbc'] * 2
            if cat == 'mac':
                pool += ['hmac-sha2-256-etm@openssh.com'] * 2
            n_ = r3.choice(pool or ['none'])
            reps = [n_] * r3.choice([1, 4, 9, 10, 12, 30])
            at = r3.randrange(len(prof[cat]) + 1)
            prof[cat] = prof[cat][:at] + reps + prof[cat][at:]
            if r3.random() < 0.5:
                prof['kex'] = [k_ for k_ in prof['kex'] if not k_.startswith('kex-strict-')]
        c = {'product': product, 'version': version, 'profile': prof, 'opts': rng.choice([[], ['-n'], ['-b'], ['-v']]), 'pseed': rng.getrandbits(32)}
        r2 = gen.case_rng(seed, ID, i, 'client')
        if r2.random() < 0.12:
            # a client audit; in half of them the client's two directions differ (what is listed, rated and recommended about must be one and the same list)
            c['role'] = 'client'
            prof.pop('keys', None)
            prof.pop('pre', None)
            if r2.random() < 0.5:
                for cat in r2.choice([['enc'], ['mac'], ['enc', 'mac']]):
                    pool = [n for n in gen.db_names(cat) if not n.endswith('-*')]
                    prof[cat + '_s2c'] = r2.sample(pool, r2.randrange(1, 6))
        elif rng.random() < 0.15:
            c['faults'] = [{'conn': rng.randrange(1, 8), 'msg': rng.choice(['reply', 'group', 'kexinit']), 'kind': rng.choice(['truncate_close', 'garbage', 'truncate_stall']), 'off': 4, 'n': 40}]
        yield c


def sample(case):
    return compact_case(case)


def known_in_version(cat, name, product, version):
    db = gen.db()['ssh2'][cat]
    key = name
    if cat == 'kex' and name.startswith('gss-'):
        key = name[:name.rindex('-')] + '-*'
    if key not in db:
        return False, key
    versions = db[key][0]
    if len(versions) == 0 or versions[0] is None:
        return True, key
    return available(versions[0], product, version), key


def available(field, product, version):
    pref = PREFIX.get(product)
    if pref is None:
        return False
    for v in field.split(','):
        if v.endswith('C'):
            continue
        if v.startswith('d'):
            p, ver = 'Dropbear SSH', v[1:]
        elif v.startswith('l1'):
            p, ver = 'libssh', v[2:]
        else:
            p, ver = 'OpenSSH', v
        if p != product or not ver:
            continue
        if refmodels.version_at_least(version, ver):
            return True
    return False


def collect(case, rec, isjson):
    """-> (notes: {(cat,name): set(levels)}, recs: [(sign, name, cat, level)], texts: {(cat,name): [note texts]})"""
    notes, texts, recs = {}, {}, []
    if isjson:
        doc, err = report.parse_json(rec['stdout'])
        if not isinstance(doc, dict):
            return None
        for cat in CATS:
            for e in doc.get(cat, []):
                k = (cat, e['algorithm'])
                notes.setdefault(k, set()).update(lv for lv in ('fail', 'warn') if e['notes'].get(lv))
                texts.setdefault(k, []).extend(t for lv in ('fail', 'warn', 'info') for t in e['notes'].get(lv, []))
        for level, acts in (doc.get('recommendations') or {}).items():
            for act, cats in acts.items():
                for cat, lst in cats.items():
                    for x in lst:
                        recs.append(({'add': '+', 'del': '-', 'chg': '!'}[act], x['name'], cat, level))
    else:
        tr = report.TextReport(rec['stdout'], verbose='-v' in case['opts'])
        for cat in CATS:
            for e in tr.algs[cat]:
                k = (cat, e['name'])
                notes.setdefault(k, set()).update(lv for lv, _ in e['notes'] if lv in ('fail', 'warn'))
                texts.setdefault(k, []).extend(t for _, t in e['notes'])
        colour = {}
        for ln in rec['stdout'].split('\n'):
            m = re.match(r'^\x1b\[0;(\d+)m\(rec\) ([+\-!])(\S+)', ln)
            if m:
                colour[(m.group(2), m.group(3))] = {'31': 'critical', '33': 'warning', '32': 'informational'}.get(m.group(1))
        for sign, name, cat, verb, extra in tr.rec:
            recs.append((sign, name, cat, colour.get((sign, name))))
    return notes, recs, texts


def run_case(case, ctx):
    out, keys = [], []
    prof = case['profile']
    product, version = case['product'], case['version']
    res = {}
    for isjson in (False, True):
        if case.get('role') == 'client':
            rec = ctx.run(gen.client_plan(case['pseed'], (['-j'] if isjson else list(case['opts'])) + ['-c', '-p', '2222', '-t', '4'], prof, port=2222))
        else:
            argv = (['-j'] if isjson else list(case['opts'])) + ['--skip-rate-test', '-t', '2', 'srv.example:2222']
            rec = ctx.run(gen.server_plan(case['pseed'], argv, prof, port=2222, faults=case.get('faults')))
        if rec.get('harness_error'):
            return {'violations': [], 'keys': []}
        if rec['status'] not in (0, 2, 3):
            out.append(viol('C13 audit failed (status %s)' % rec['status'], rec['stdout'][-600:]))
            return {'violations': out, 'keys': []}
        got = collect(case, rec, isjson)
        if got is None:
            out.append(viol('C13 json unparsable', rec['stdout'][:300]))
            return {'violations': out, 'keys': []}
        res[isjson] = got
    # text and JSON must agree on the recommendation set
    tset = sorted((s, n, c) for s, n, c, _ in res[False][1])
    jset = sorted((s, n, c) for s, n, c, _ in res[True][1])
    if tset != jset:
        out.append(viol('C13 text and JSON recommend different things', 'only text: %r\nonly json: %r' % ([x for x in tset if x not in jset][:8], [x for x in jset if x not in tset][:8])))
    advertised = {cat: [wire.shown(x) for x in prof.get(cat, [])] for cat in CATS}
    if case.get('role') == 'client':
        # the lists a client audit shows are the server-to-client ones
        for cat in ('enc', 'mac'):
            if prof.get(cat + '_s2c') is not None:
                advertised[cat] = [wire.shown(x) for x in prof[cat + '_s2c']]
    for isjson, (notes, recs, texts) in res.items():
        view = 'json' if isjson else 'text'
        signs = {}
        for sign, name, cat, level in recs:
            signs.setdefault((cat, name), set()).add(sign)
            if sign in '-!':
                if name not in advertised[cat]:
                    out.append(viol('C13 %s: removal/change recommended for an algorithm the peer does not advertise' % view, '%s %s' % (cat, name)))
                    continue
                lv = notes.get((cat, name), set())
                if not lv:
                    out.append(viol('C13 %s: removal/change recommended for an algorithm without any failure or warning in the report' % view, '%s %s' % (cat, name)))
                if level is not None:
                    crit = level == 'critical'
                    if crit != ('fail' in lv):
                        out.append(viol('C13 %s: recommendation level does not match the rating (critical iff failure)' % view, '%s %s level=%s rating=%r' % (cat, name, level, sorted(lv))))
            else:
                if name in advertised[cat]:
                    out.append(viol('C13 %s: addition recommended for an advertised algorithm' % view, '%s %s' % (cat, name)))
                db = gen.db()['ssh2'][cat]
                desc = db.get(name)
                if desc is None:
                    out.append(viol('C13 %s: addition of a name the database does not know' % view, '%s %s' % (cat, name)))
                    continue
                if (len(desc) > 1 and desc[1]) or (len(desc) > 2 and desc[2]):
                    out.append(viol('C13 %s: addition of an algorithm the database rates with a failure or warning' % view, '%s %s %r' % (cat, name, desc[1:3])))
                if (cat == 'key' and ('-cert-' in name or name.startswith('sk-'))) or (cat == 'kex' and (name.startswith('ext-info-') or name.startswith('kex-strict-'))):
                    out.append(viol('C13 %s: addition of a certificate / security-key / pseudo algorithm' % view, '%s %s' % (cat, name)))
                if product in PREFIX and not (desc[0] and desc[0][0] and available(desc[0][0], product, version)):
                    out.append(viol('C13 %s: addition of an algorithm not available in the identified version' % view, '%s %s versions=%r banner=%s' % (cat, name, desc[0], prof['banner'])))
                if product not in ('OpenSSH', 'Dropbear SSH', 'libssh', 'TinySSH'):
                    out.append(viol('C13 %s: addition recommended for unrecognised software' % view, '%s banner=%s' % (name, prof['banner'])))
        for k, sg in signs.items():
            if '+' in sg and (('-' in sg) or ('!' in sg)):
                out.append(viol('C13 %s: an algorithm is recommended both for addition and removal' % view, repr(k)))
        # completeness: advertised, rated fail/warn, known in the identified version => recommended
        if product in PREFIX:
            for (cat, name), lv in notes.items():
                if not lv or name not in advertised[cat]:
                    continue
                known, key = known_in_version(cat, name, product, version)
                if not known:
                    continue
                if any(OPENSSH_BUG_NOTE in t for t in texts.get((cat, name), [])):
                    continue
                if not ({'-', '!'} & signs.get((cat, name), set())):
                    gss = ' (gss-*)' if key.endswith('-*') else ''
                    out.append(viol('C13 %s: advertised algorithm rated %s is not recommended for removal or change%s' % (view, '/'.join(sorted(lv)), gss),
                                    '%s %s (db key %s, versions %r) banner=%s' % (cat, name, key, gen.db()['ssh2'][cat][key][0], prof['banner'])))
    if res[False][0]:
        keys.append(h(product, version, sorted((c, tuple(v)) for c, v in advertised.items())))
    return {'violations': out, 'keys': keys, 'counters': {'product_%s' % product: 1}}


def shrink(case):
    from .common import shrink_profile_lists
    yield from shrink_profile_lists(case)
    if case.get('faults'):
        c = copy.deepcopy(case)
        c['faults'] = None
        yield c
