"""C05 - a policy made from a target passes on that target and fails on any drift."""
import copy
import json

from .. import gen, report, wire, refmodels
from .common import viol, h, compact_case, CATS
from . import C06 as c06

ID = 'C05'
CLAIM = ('a history of fresh invocations sharing one simulated machine\'s file system: `-M p.txt target` writes a policy, `-P p.txt target` (same peer, new process) must pass with no '
         'errors, and `-P p.txt` against a peer perturbed in exactly one covered attribute (one name added / removed / swapped in kex, host keys, ciphers or MACs; host-key size; '
         'CA size; CA type; GEX modulus) must fail naming that field. Peers: archetypes and seeded lists over RFC 4251 names incl. "=", "+", "/", "@"; sizes come from the simulated '
         'probes. Built-in clause: for every built-in policy a peer synthesised exactly from its lists and size maps (server or client role) passes `-P "<name>"`. File faults: -M onto '
         'an existing path')
TRUST = ('trusted base: simulated peers and probes; a scratch directory on tmpfs stands for the machine\'s file system (real open/read/write); the keyword mapping of error field names')
TECHNIQUE = 'deterministic simulation of a multi-invocation history over shared durable state (policy file); single-attribute perturbation oracle'
LEVEL = 'exploration'
BUDGET = {'quick': 200, 'thorough': 2400}
NCASES = {'quick': 260, 'thorough': 5000}
RULE = ('cases: peer (archetype or seeded lists, key ring, GEX policy) + 2-4 single-attribute perturbations; plus one case per built-in policy. non-trivial: invocation 2 reached a '
        'verdict; distinct by (peer hash, perturbation kind).')
ASSUMPTIONS = ['perturbations of sizes are applied only to attributes the first audit measured (listed in the written policy)']

PERT = ['add', 'remove', 'swap', 'rsa_size', 'ca_size', 'ca_type', 'gex']


def cases(seed, tier):
    from ssh_audit.builtin_policies import BUILTIN_POLICIES
    for name in sorted(BUILTIN_POLICIES):
        yield {'kind': 'builtin', 'policy_name': name, 'opts': ['-n'] if int(h(name), 16) % 2 else ['-j'], 'pseed': 7}
    for i in range(NCASES[tier] // 5):
        # client role (listen/accept): the two directions of a client's lists may legally differ
        rng = gen.case_rng(seed, ID, 'client', i)
        p = gen.rand_profile(rng, allow_odd=False, with_keys=False)
        p['banner'] = rng.choice(['SSH-2.0-OpenSSH_9.6', 'SSH-2.0-PuTTY_Release_0.79', 'SSH-2.0-Go'])
        for cat in CATS:
            if not p[cat]:
                p[cat] = [rng.choice([n for n in gen.db_names(cat) if not n.endswith('-*')])]
        if rng.random() < 0.6:
            p['enc_s2c'] = rng.sample(p['enc'], max(1, len(p['enc']) - 1)) if len(p['enc']) > 1 else p['enc'] + ['aes128-ctr']
        if rng.random() < 0.6:
            p['mac_s2c'] = list(reversed(p['mac'])) if len(set(p['mac'])) > 1 else p['mac'] + ['hmac-sha2-256']
        if rng.random() < 0.3:
            p['comp_s2c'] = ['none']
        yield {'kind': 'client', 'profile': p, 'opts': rng.choice([['-n'], ['-j']]), 'pert': rng.choice(['enc', 'mac', 'kex', 'key']), 'pseed': rng.getrandbits(32)}
    for i in range(NCASES[tier]):
        rng = gen.case_rng(seed, ID, i)
        if rng.random() < 0.5:
            p = gen.archetype(rng.choice(['modern', 'hardened', 'old', 'dropbear']))
            if rng.random() < 0.5:
                p['kex'].insert(rng.randrange(len(p['kex']) + 1), gen.gss_name(rng, force_chars=True))
        else:
            p = gen.rand_profile(rng, allow_odd=False)
            if rng.random() < 0.6:
                p['kex'].append(gen.gss_name(rng, force_chars=rng.random() < 0.7))
        for cat in CATS:
            if not p[cat]:
                p[cat] = [rng.choice(gen.db_names(cat)).replace('-*', '-AAAA')]
        rp = gen.case_rng(seed, ID, i, 'punct')
        if rp.random() < 0.15:
            # RFC 4251 names may hold any printable US-ASCII character but the comma: the characters that mean something to a key = value
            # file (comment signs, quotes, separators, brackets) must survive the trip through the policy file
            pool = ['#pq-hybrid-draft@example.com', 'name#tag@example.com', ';semi@example.com', 'key=value@example.com', 'a:b@example.com', '[bracket]', '{brace}', "it's@example.com",
                    'dou"ble@example.com', '"quoted"', 'back\\slash', '%percent%', '!bang', '*star*', '//slashes', '-leading-dash', 'trailing-dash-', '=eq', '#']
            for _ in range(rp.randrange(1, 3)):
                cat = rp.choice(CATS)
                p[cat] = list(p[cat])
                p[cat].insert(rp.randrange(len(p[cat]) + 1), rp.choice(pool))
        if rng.random() < 0.6 and not any(k in gen.RSA_FAMILY for k in p['key']):
            p['key'].append('rsa-sha2-512')
        if rng.random() < 0.4 and 'ssh-rsa-cert-v01@openssh.com' not in p['key']:
            p['key'].insert(0, 'ssh-rsa-cert-v01@openssh.com')
        r5 = gen.case_rng(seed, ID, i, 'edcert')
        edcert = r5.random() < 0.25 and 'ssh-ed25519-cert-v01@openssh.com' not in p['key']
        if edcert:
            p['key'].insert(r5.randrange(len(p['key']) + 1), 'ssh-ed25519-cert-v01@openssh.com')
        p['keys'] = gen.rand_keys(rng, p['key'])
        if rng.random() < 0.5 and not any(g in p['kex'] for g in gen.GEX):
            p['kex'].append('diffie-hellman-group-exchange-sha256')
        if any(g in p['kex'] for g in gen.GEX):
            p['gex'] = {'sizes': [rng.choice([1024, 1536, 3072, 4096])], 'style': 'strict'}
        if not any(k in gen.PROBE_KEX for k in p['kex']):
            p['kex'].insert(0, 'curve25519-sha256')
        perts = rng.sample(PERT, rng.randrange(2, 5))
        if edcert:
            perts = perts + [r5.choice(['ca_type_ed', 'ca_size_ed'])]
        r4 = gen.case_rng(seed, ID, i, 'empty')
        if r4.random() < 0.06:
            # an AEAD-only peer with empty MAC name-lists: the policy made from it covers that (empty) list too
            p['mac'] = []
            perts = perts + ['fill_empty']
        r3 = gen.case_rng(seed, ID, i, 'unsignable')
        fam = [a for a in p['key'] if a in gen.RSA_FAMILY]
        if len(fam) >= 2 and r3.random() < 0.3:
            # the server advertises the whole RSA family but cannot sign with some member (e.g. SHA-1 forbidden by its crypto policy):
            # the key is still presented, and its size measured, through another member
            p['unsignable'] = r3.sample(fam, r3.randrange(1, len(fam)))
            if 'rsa_size' not in perts:
                perts = perts + ['rsa_size']
        r2 = gen.case_rng(seed, ID, i, 'two-gex')
        if r2.random() < 0.25:
            # both group-exchange algorithms, each measured on its own: a drift of the modulus handed out for one of them only
            p['kex'] = [k for k in p['kex'] if k not in gen.GEX] + r2.sample(list(gen.GEX), 2)
            p['gex'] = {'sizes': [r2.choice([1024, 1536, 3072, 4096])], 'style': 'strict'}
            perts = perts + ['gex_one']
        yield {'kind': 'custom', 'profile': p, 'perts': perts, 'opts': rng.choice([['-n'], ['-j'], ['-n', '-b']]), 'net': gen.rand_net(rng) if rng.random() < 0.3 else {'rtt_us': 200},
               'pseed': rng.getrandbits(32), 'exists': rng.random() < 0.1}


def sample(case):
    return compact_case(case)


def perturb(rng, prof, kind):
    """-> (new profile, expected canonical field) or None if not applicable."""
    p = copy.deepcopy(prof)
    if kind in ('add', 'remove', 'swap'):
        cat = rng.choice(CATS)
        lst = p[cat]
        if kind == 'add':
            pool = [n for n in gen.db_names(cat) if n not in lst and not n.endswith('-*')]
            lst.insert(rng.randrange(len(lst) + 1), rng.choice(pool))
        elif kind == 'remove':
            if len(lst) < 2:
                return None
            victim = rng.randrange(len(lst))
            # keep the probes comparable: do not remove the only probe-able key exchange
            if cat == 'kex' and lst[victim] in gen.PROBE_KEX and sum(1 for x in lst if x in gen.PROBE_KEX) < 2:
                return None
            del lst[victim]
        else:
            idx = [i for i in range(len(lst))]
            if len(set(lst)) < 2:
                return None
            a, b = rng.sample(idx, 2)
            if lst[a] == lst[b]:
                return None
            lst[a], lst[b] = lst[b], lst[a]
        return p, cat
    if kind == 'rsa_size':
        if 'ssh-rsa' not in p.get('keys', {}) or not any(k in gen.RSA_FAMILY for k in p['key']):
            return None
        old = p['keys']['ssh-rsa']['bits']
        # another standard size, or the same size give or take a few bits (a key of another size is a different key size)
        p['keys']['ssh-rsa']['bits'] = rng.choice([b for b in (1024, 2048, 3072, 4096) if b != old] + [old - 1, old - 7, old + 8, old - 16])
        return p, 'hksize'
    if kind in ('ca_size', 'ca_type'):
        spec = p.get('keys', {}).get('ssh-rsa-cert-v01@openssh.com')
        if not spec or not any(k.endswith('cert-v01@openssh.com') and 'rsa' in k for k in p['key']):
            return None
        if kind == 'ca_size':
            if spec['ca_type'] != 'ssh-rsa':
                return None
            spec['ca_bits'] = rng.choice([b for b in (1024, 2048, 3072, 4096) if b != spec['ca_bits']] + [spec['ca_bits'] - 1, spec['ca_bits'] - 7, spec['ca_bits'] + 8])
            return p, 'casize'
        spec['ca_type'] = rng.choice([t for t in ('ssh-rsa', 'ssh-ed25519') if t != spec['ca_type']])
        if spec['ca_type'] == 'ssh-rsa':
            spec['ca_bits'] = 3072
        return p, 'catype'
    if kind == 'gex':
        if 'gex' not in p or not any(g in p['kex'] for g in gen.GEX):
            return None
        old = p['gex']['sizes'][0]
        # another standard size, or the same size give or take a few bits (a different modulus size is a different size)
        p['gex']['sizes'] = [rng.choice([b for b in (1024, 1536, 3072, 4096) if b != old] + [old - 1, old + 4, old - 7, old + 8])]
        if p['gex']['sizes'][0] not in (1024, 1536, 3072, 4096):
            p['gex']['style'] = 'roundup'      # a size off the probe grid can only be measured on a server that rounds requests up to what it has
        return p, 'dh'
    if kind in ('ca_type_ed', 'ca_size_ed'):
        spec = p.get('keys', {}).get('ssh-ed25519-cert-v01@openssh.com')
        if not spec or 'ssh-ed25519-cert-v01@openssh.com' not in p['key']:
            return None
        if kind == 'ca_size_ed':
            if spec.get('ca_type') != 'ssh-rsa':
                return None
            spec['ca_bits'] = rng.choice([b for b in (1024, 2048, 3072, 4096) if b != spec['ca_bits']])
            return p, 'casize'
        spec['ca_type'] = 'ssh-rsa' if spec.get('ca_type') != 'ssh-rsa' else 'ssh-ed25519'
        if spec['ca_type'] == 'ssh-rsa':
            spec['ca_bits'] = 3072
        return p, 'catype'
    if kind == 'fill_empty':
        if p.get('mac'):
            return None
        p['mac'] = [rng.choice(['hmac-sha2-256', 'hmac-sha1', 'umac-128-etm@openssh.com'])]
        return p, 'mac'
    if kind == 'gex_one':
        algs = [g for g in gen.GEX if g in p['kex']]
        if 'gex' not in p or len(algs) < 2:
            return None
        old = p['gex']['sizes'][0]
        p['gex']['sizes_by_alg'] = {rng.choice(algs): [rng.choice([b for b in (1024, 1536, 3072, 4096) if b != old])]}
        return p, 'dh'
    return None


def builtin_peer(name):
    from ssh_audit.builtin_policies import BUILTIN_POLICIES
    pol = BUILTIN_POLICIES[name]
    keys = {}
    hs = pol.get('hostkey_sizes') or {}
    for k in pol['host_keys']:
        if k in gen.RSA_FAMILY:
            keys['ssh-rsa'] = {'bits': (hs.get(k) or {}).get('hostkey_size', 4096)}
        elif k in gen.KEY_SPECS:
            keys[k] = {}
        elif k in ('rsa-sha2-256-cert-v01@openssh.com', 'rsa-sha2-512-cert-v01@openssh.com', 'ssh-rsa-cert-v01@openssh.com'):
            e = hs.get(k) or {}
            keys['ssh-rsa-cert-v01@openssh.com'] = {'bits': e.get('hostkey_size', 4096), 'ca_type': e.get('ca_key_type', 'ssh-rsa'), 'ca_bits': e.get('ca_key_size', 4096)}
        elif k == 'ssh-ed25519-cert-v01@openssh.com':
            e = hs.get(k) or {}
            keys[k] = {'ca_type': e.get('ca_key_type', 'ssh-ed25519'), 'ca_bits': e.get('ca_key_size', 0) if e.get('ca_key_type') == 'ssh-rsa' else 0}
    prof = {'banner': pol['banner'] or 'SSH-2.0-OpenSSH_9.9', 'kex': list(pol['kex']), 'key': list(pol['host_keys']), 'enc': list(pol['ciphers']), 'mac': list(pol['macs']),
            'comp': list(pol['compressions'] or ['none', 'zlib@openssh.com']), 'keys': keys}
    dh = pol.get('dh_modulus_sizes') or {}
    if dh:
        prof['gex'] = {'sizes': [list(dh.values())[0]], 'style': 'strict'}
    return prof, bool(pol['server_policy'])


def run_case(case, ctx):
    out, keys = [], []
    d = ctx.scratch()
    if case['kind'] == 'builtin':
        prof, server = builtin_peer(case['policy_name'])
        if server:
            plan = gen.server_plan(case['pseed'], list(case['opts']) + ['--skip-rate-test', '-t', '2', '-P', case['policy_name'], 'srv.example:2222'], prof, port=2222)
        else:
            plan = gen.client_plan(case['pseed'], list(case['opts']) + ['-c', '-p', '2222', '-t', '4', '-P', case['policy_name']], prof, port=2222)
        rec = ctx.run(plan)
        if rec.get('harness_error'):
            return {'violations': [], 'keys': []}
        v = c06.verdict(case, rec)
        if v is None:
            out.append(viol('C05 built-in policy: no verdict (status %s)' % rec['status'], '%s\n%s' % (case['policy_name'], rec['stdout'][-600:])))
        elif not v[0]:
            out.append(viol('C05 a peer configured exactly as a built-in policy lists fails it (%s)' % ','.join(sorted(x.split(':')[0] for x in v[1])), '%s\n%s' % (case['policy_name'], rec['stdout'][-900:])))
        else:
            keys.append(h('builtin', case['policy_name']))
        return {'violations': out, 'keys': keys, 'counters': {'builtin': 1}}
    prof = case['profile']
    if case['kind'] == 'client':
        return run_client_case(case, ctx, d)
    files = {'p.txt': 'pre-existing\n'} if case.get('exists') else {'p.txt': None}
    plan = gen.server_plan(case['pseed'], ['--skip-rate-test', '-t', '2', '-M', '{DIR}/p.txt', 'srv.example:2222'], prof, port=2222, net=case['net'])
    plan.update({'dir': d, 'files': files, 'collect_files': ['p.txt']})
    r1 = ctx.run(plan)
    if r1.get('harness_error'):
        return {'violations': [], 'keys': []}
    if case.get('exists'):
        if r1['files'].get('p.txt') != 'pre-existing\n':
            out.append(viol('C05 -M overwrote an existing file', repr(r1['files'].get('p.txt'))[:200]))
        if 'already exists' not in r1['stdout']:
            out.append(viol('C05 -M onto an existing path did not say so', r1['stdout'][-300:]))
        return {'violations': out, 'keys': [h('exists')]}
    text = r1['files'].get('p.txt')
    if r1['status'] != 0 or not text:
        out.append(viol('C05 -M did not write a policy (status %s)' % r1['status'], r1['stdout'][-600:] + r1['stderr'][-300:]))
        return {'violations': out, 'keys': []}

    def audit(p, label):
        pl = gen.server_plan(case['pseed'], list(case['opts']) + ['--skip-rate-test', '-t', '2', '-P', '{DIR}/p.txt', 'srv.example:2222'], p, port=2222, net=case['net'])
        pl.update({'dir': d, 'files': {}})
        return ctx.run(pl)
    r2 = audit(prof, 'same')
    if r2.get('harness_error'):
        return {'violations': [], 'keys': []}
    v2 = c06.verdict(case, r2)
    if v2 is None:
        kind = 'policy file does not load' if 'Error while loading policy file' in r2['stdout'] else 'no verdict'
        gss = ' (name with "=")' if any('=' in wire.shown(n) for c in CATS for n in prof[c]) else ''
        out.append(viol('C05 the written policy cannot be evaluated: %s%s' % (kind, gss), '%s\npolicy file:\n%s' % (r2['stdout'][-700:], text[-900:])))
        return {'violations': out, 'keys': []}
    if not v2[0] or r2['status'] != 0:
        out.append(viol('C05 the policy made from a target fails on the same target (%s)' % ','.join(sorted(x.split(':')[0] for x in v2[1])),
                        '%s\npolicy file:\n%s' % (r2['stdout'][-700:], text[-1200:])))
        return {'violations': out, 'keys': []}
    keys.append(h('same', sorted((c, tuple(prof[c])) for c in CATS)))
    rng = gen.case_rng(case['pseed'], 'pert')
    for kind in case['perts']:
        got = perturb(rng, prof, kind)
        if got is None:
            continue
        p2, field = got
        # a size is a covered attribute when the first audit measured it (judged from the server-side log, not from the file)
        srv1 = r1['servers'][0]
        if field in ('hksize', 'casize', 'catype') and not srv1['hostkeys_sent']:
            continue
        if field == 'hksize' and not [a for a in prof['key'] if a in gen.RSA_FAMILY and a not in prof.get('unsignable', [])]:
            continue        # no member of the RSA family the server is willing to present a key for
        if field in ('casize', 'catype') and not any('cert' in hk['alg'] for hk in srv1['hostkeys_sent']):
            continue
        if field == 'dh' and not any(rq['answer'] and rq['delivered'] and (rq['min'], rq['n'], rq['max']) != (1024, 2048, 8192) for rq in srv1['gex_requests']):
            continue
        r3 = audit(p2, kind)
        if r3.get('harness_error'):
            return {'violations': [], 'keys': []}
        v3 = c06.verdict(case, r3)
        if v3 is None:
            out.append(viol('C05 drifted peer (%s): no verdict' % kind, r3['stdout'][-500:]))
            continue
        if v3[0] or r3['status'] != 3:
            out.append(viol('C05 drift not detected: %s' % kind, 'expected a mismatch in %s\nbefore: %s\nafter:  %s\npolicy file:\n%s' % (
                field, json.dumps({c: prof[c] for c in CATS})[:500], json.dumps({c: p2[c] for c in CATS})[:500], text[-800:])))
        elif not any(f.split(':')[0] == field for f in v3[1]):
            out.append(viol('C05 drift detected but the mismatched field is not named: %s' % kind, 'expected %s, errors name %r' % (field, sorted(v3[1]))))
        else:
            keys.append(h('pert', kind, field))
    return {'violations': out, 'keys': keys, 'counters': {'custom': 1}}


def run_client_case(case, ctx, d):
    out, keys = [], []
    prof = case['profile']

    def run(argv, p, files=None, collect=None):
        pl = gen.client_plan(case['pseed'], argv + ['-c', '-p', '2222', '-t', '4'], p, port=2222)
        pl.update({'dir': d, 'files': files or {}, 'collect_files': collect or []})
        return ctx.run(pl)
    r1 = run(['-M', '{DIR}/p.txt'], prof, {'p.txt': None}, ['p.txt'])
    if r1.get('harness_error'):
        return {'violations': [], 'keys': []}
    text = r1['files'].get('p.txt')
    if r1['status'] != 0 or not text:
        out.append(viol('C05 client role: -M did not write a policy (status %s)' % r1['status'], r1['stdout'][-500:] + r1['stderr'][-300:]))
        return {'violations': out, 'keys': []}
    r2 = run(list(case['opts']) + ['-P', '{DIR}/p.txt'], prof)
    if r2.get('harness_error'):
        return {'violations': [], 'keys': []}
    v2 = c06.verdict(case, r2)
    asym = any(k in prof for k in ('enc_s2c', 'mac_s2c', 'comp_s2c'))
    if v2 is None:
        out.append(viol('C05 client role: the written policy cannot be evaluated', r2['stdout'][-600:]))
    elif not v2[0] or r2['status'] != 0:
        out.append(viol('C05 client role: the policy made from a client fails on the same client (%s)%s' % (','.join(sorted(x.split(':')[0] for x in v2[1])), ' [directions differ]' if asym else ''),
                        '%s\npolicy file:\n%s' % (r2['stdout'][-600:], text[-900:])))
    else:
        keys.append(h('client-same', asym, sorted((c, tuple(prof[c])) for c in CATS)))
        # drift in what the report shows (the server-to-client direction for ciphers and MACs)
        p2 = copy.deepcopy(prof)
        cat = case['pert']
        fld = {'enc': 'enc_s2c', 'mac': 'mac_s2c'}.get(cat, cat)
        cur = list(p2.get(fld, p2[cat]))
        pool = [n for n in gen.db_names(cat) if n not in cur and not n.endswith('-*')]
        cur.append(pool[case['pseed'] % len(pool)])
        p2[fld] = cur
        if fld == cat and cat in ('enc', 'mac'):
            p2[cat + '_s2c'] = cur
        r3 = run(list(case['opts']) + ['-P', '{DIR}/p.txt'], p2)
        if not r3.get('harness_error'):
            v3 = c06.verdict(case, r3)
            if v3 is None or v3[0] or r3['status'] != 3:
                out.append(viol('C05 client role: drift not detected (%s)' % cat, r3['stdout'][-500:]))
            elif not any(f.split(':')[0] == cat for f in v3[1]):
                out.append(viol('C05 client role: drift detected but the field is not named (%s)' % cat, repr(sorted(v3[1]))))
            else:
                keys.append(h('client-pert', cat, asym))
    return {'violations': out, 'keys': keys, 'counters': {'client': 1}}


def shrink(case):
    if case['kind'] != 'custom':
        return
    from .common import shrink_profile_lists
    yield from shrink_profile_lists(case)
    if len(case['perts']) > 1:
        for i in range(len(case['perts'])):
            c = copy.deepcopy(case)
            del c['perts'][i]
            yield c
