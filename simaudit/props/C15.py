"""C15 - output options change presentation only, never findings or verdict."""
import copy
import re

from .. import gen, report, wire
from .common import viol, h, compact_case, CATS

ID = 'C15'
CLAIM = ('one simulated peer is rendered under seeded combinations of -b, -v, -n, -l {info,warn,fail}, -j, -jj, NO_COLOR; between renderings the randomness streams (cookie, DH '
         'exponent) and the delivery schedule are changed on purpose, and some renderings run in fresh interpreters under other PYTHONHASHSEED values; exit status and the set of '
         '(category, name, level, note) findings must be identical, a raised minimum level must only remove lines, JSON output must be one document whose compact and indented forms '
         'parse alike, and repeats must be byte-identical')
TRUST = ('trusted base: report parsers; the level of a text line is read from its colour (the tool\'s own presentation of level); JSON findings are compared for database-known names only')
TECHNIQUE = 'deterministic simulation; differential oracle across option sets x randomness streams x delivery schedules x hash seeds (fresh interpreters)'
LEVEL = 'exploration'
BUDGET = {'quick': 200, 'thorough': 2400}
NCASES = {'quick': 220, 'thorough': 4000}
RULE = ('cases: peer with a seeded severity mix (a quarter of them with different cipher / MAC lists for the two directions) + 5 seeded option sets (+1 fresh-interpreter run in every 4th case). non-trivial: >= 2 renderings of one peer compared; distinct by '
        '(option pair, severity mix, hash seed).')
ASSUMPTIONS = ['verbose progress lines ("Starting audit of ...") are not findings; under -v they are nevertheless required not to break the JSON document']

TEXT_SETS = [[], ['-b'], ['-v'], ['-n'], ['-n', '-b'], ['-b', '-v'], ['-n', '-v']]
LEVEL_SETS = [['-l', 'warn'], ['-l', 'fail'], ['-l', 'info'], ['-b', '-l', 'warn'], ['-v', '-l', 'fail']]
JSON_SETS = [['-j'], ['-jj'], ['-j', '-b'], ['-jj', '-n'], ['-j', '-l', 'warn'], ['-j', '-l', 'fail'], ['-v', '-j'], ['-jj', '-v']]
COL = {'31': 'fail', '33': 'warn', '32': 'info', '36': 'head'}


def cases(seed, tier):
    for i in range(NCASES[tier]):
        rng = gen.case_rng(seed, ID, i)
        if rng.random() < 0.5:
            p = gen.archetype(rng.choice(['modern', 'hardened', 'old', 'dropbear', 'tinyssh']))
            p['keys'] = gen.rand_keys(rng, p['key'])
        else:
            p = gen.rand_profile(rng, allow_odd=rng.random() < 0.5)
        if rng.random() < 0.3:
            # strict-kex marker together with ChaCha20, CBC ciphers and ETM MACs: the advisory note lists several names
            if 'kex-strict-s-v00@openssh.com' not in p['kex']:
                p['kex'] = p['kex'] + ['kex-strict-s-v00@openssh.com']
            p['enc'] = list(dict.fromkeys(p['enc'] + ['chacha20-poly1305@openssh.com', 'aes128-cbc', 'aes256-cbc', '3des-cbc']))
            p['mac'] = list(dict.fromkeys(p['mac'] + ['hmac-sha2-256-etm@openssh.com', 'hmac-sha2-512-etm@openssh.com', 'umac-128-etm@openssh.com']))
        p['pre'] = rng.choice([[], [], ['hello']])
        r2 = gen.case_rng(seed, ID, i, 'directions')
        if r2.random() < 0.25:
            # a peer whose two directions differ (RFC 4253 allows it): whichever direction the tool reports, every view must report the same one
            for cat in r2.choice([['mac'], ['enc'], ['mac', 'enc']]):
                pool = [n for n in gen.db_names(cat) if not n.endswith('-*')]
                p[cat + '_c2s'] = r2.sample(pool, r2.randrange(1, 5))
        sets = [rng.choice(TEXT_SETS), rng.choice(LEVEL_SETS), rng.choice(JSON_SETS), rng.choice(JSON_SETS), rng.choice(TEXT_SETS + LEVEL_SETS)]
        yield {'profile': p, 'sets': sets, 'nets': [gen.rand_net(rng) for _ in range(3)], 'no_color_env': rng.random() < 0.2, 'fresh': i % 2 == 0,
               'hashseed': rng.choice(['0', '1', '4242', str(rng.getrandbits(20))]), 'pseed': rng.getrandbits(32)}


def sample(case):
    return compact_case(case)


def coloured_lines(stdout):
    """[(level, plain text)] for every printed line; an uncoloured line is info level."""
    out = []
    cur = None
    for raw in stdout.split('\n'):
        m = re.match(r'^\x1b\[0;(\d+)m', raw)
        lvl = COL.get(m.group(1)) if m else None
        if m:
            cur = lvl
        plain = report.strip_ansi(raw)
        out.append((cur if cur else 'info', plain))
        if raw.endswith('\x1b[0m') or not m and cur is None:
            cur = None
        if raw.endswith('\x1b[0m'):
            cur = None
    return out


def findings_text(stdout, verbose):
    tr = report.TextReport(stdout, verbose=verbose)
    f = set()
    for cat in report.ALG_TAGS:
        for e in tr.algs[cat]:
            for lv, t in e['notes']:
                f.add((cat, e['name'], lv, t))
            if not e['notes']:
                f.add((cat, e['name'], 'info', ''))
    return f, tr


def findings_json(doc):
    f = set()
    for cat in CATS:
        for e in doc.get(cat, []):
            n = 0
            for lv in ('fail', 'warn', 'info'):
                for t in e['notes'].get(lv, []):
                    f.add((cat, e['algorithm'], lv, t))
                    n += 1
            if not n:
                f.add((cat, e['algorithm'], 'info', ''))
    return f


def is_subsequence(small, big):
    it = iter(big)
    return all(any(x == y for y in it) for x in small)


def run_case(case, ctx):
    out, keys = [], []
    p = case['profile']

    def plan(opts, net, rseed, env=None):
        pl = gen.server_plan(case['pseed'], list(opts) + ['--skip-rate-test', '-t', '2', 'srv.example:2222'], p, port=2222, net=net, knobs={'rand_seed': rseed})
        pl['env'] = env or {}
        return pl
    ref = ctx.run(plan([], {'rtt_us': 200}, 1))
    if ref.get('harness_error'):
        return {'violations': [], 'keys': []}
    if ref['status'] not in (0, 2, 3):
        out.append(viol('C15 reference audit failed (status %s)' % ref['status'], ref['stdout'][-500:]))
        return {'violations': out, 'keys': []}
    fref, tref = findings_text(ref['stdout'], False)
    ref_lines = coloured_lines(ref['stdout'])
    # repeat with other randomness and another delivery schedule: byte-identical
    rep = ctx.run(plan([], case['nets'][0], 2))
    if not rep.get('harness_error') and rep['stdout'] != ref['stdout']:
        out.append(viol('C15 repeated audit of the same peer is not byte-identical (other randomness / delivery schedule)', 'net=%r' % (case['nets'][0],)))
    if case['fresh']:
        fr = ctx.run_fresh(plan([], case['nets'][1], 3), hashseed=case['hashseed'])
        if fr.get('harness_error'):
            return {'violations': [], 'keys': []}
        if fr['stdout'] != ref['stdout'] or fr['status'] != ref['status']:
            a, b = ref['stdout'].split('\n'), fr['stdout'].split('\n')
            diff = next((i for i in range(min(len(a), len(b))) if a[i] != b[i]), min(len(a), len(b)))
            out.append(viol('C15 output differs under another PYTHONHASHSEED (fresh interpreter)', 'hashseed=%s first differing line %d:\n%r\n%r' % (
                case['hashseed'], diff, a[diff:diff + 1], b[diff:diff + 1])))
        keys.append(h('hashseed', case['hashseed'], sorted(fref)[:3]))
    known = {cat: set(gen.db()['ssh2'][cat]) for cat in CATS}
    sev = tuple(sorted({lv for _, _, lv, _ in fref}))
    for si, opts in enumerate(case['sets']):
        env = {'NO_COLOR': '1'} if case['no_color_env'] and si == 0 else {}
        r = ctx.run(plan(opts, case['nets'][si % 3], 10 + si, env))
        if r.get('harness_error'):
            return {'violations': [], 'keys': []}
        name = ' '.join(opts) or '(default)'
        if r['status'] != ref['status']:
            out.append(viol('C15 exit status changes with %s' % name, 'default %s, here %s' % (ref['status'], r['status'])))
        isjson = any(o in ('-j', '-jj') for o in opts)
        level = opts[opts.index('-l') + 1] if '-l' in opts else 'info'
        if isjson:
            doc, err = report.parse_json(r['stdout'])
            if doc is None:
                why = 'empty output' if not r['stdout'].strip() else ('text before the document' if not r['stdout'].lstrip().startswith(('{', '[')) else 'malformed')
                out.append(viol('C15 stdout under %s is not one JSON document (%s)' % (name, why), r['stdout'][:300]))
                continue
            fj = findings_json(doc)
            fj_known = {x for x in fj if x[1] in known[x[0]] or (x[0] == 'kex' and x[1].startswith('gss-'))}
            fr_known = {x for x in fref if x[0] in known and (x[1] in known[x[0]] or (x[0] == 'kex' and x[1].startswith('gss-')))}
            if fj_known != fr_known:
                out.append(viol('C15 JSON findings differ from the text findings (%s)' % name, 'only json: %r\nonly text: %r' % (sorted(fj_known - fr_known)[:5], sorted(fr_known - fj_known)[:5])))
            # compact vs indented
            other = ['-jj' if o == '-j' else ('-j' if o == '-jj' else o) for o in opts]
            r2 = ctx.run(plan(other, case['nets'][(si + 1) % 3], 20 + si, env))
            if not r2.get('harness_error'):
                d2, _ = report.parse_json(r2['stdout'])
                if d2 is not None and d2 != doc:
                    out.append(viol('C15 compact and indented JSON parse to different values', name))
        else:
            verbose = '-v' in opts
            ft, tr = findings_text(r['stdout'], verbose)
            if level == 'info':
                if ft != fref:
                    out.append(viol('C15 findings differ under %s' % name, 'only here: %r\nonly default: %r' % (sorted(ft - fref)[:5], sorted(fref - ft)[:5])))
            else:
                # only removal of lines below the level: compare against the same rendering at level info
                base_opts = [o for i, o in enumerate(opts) if o != '-l' and (i == 0 or opts[i - 1] != '-l')]
                b = ctx.run(plan(base_opts, case['nets'][(si + 2) % 3], 30 + si, env))
                if b.get('harness_error'):
                    return {'violations': [], 'keys': []}
                colours_on = '-n' not in opts and not env
                base_lines = [x for x in coloured_lines(b['stdout'])]
                here = [t for _, t in coloured_lines(r['stdout']) if t.strip()]
                base_txt = [t for _, t in base_lines if t.strip()]
                if not is_subsequence(here, base_txt):
                    extra = [t for t in here if t not in base_txt][:4]
                    out.append(viol('C15 raising the level to %s adds or alters lines (%s)' % (level, name), 'lines not in the level-info rendering: %r' % (extra,)))
                if colours_on and not verbose:
                    keep = {'warn': ('warn', 'fail'), 'fail': ('fail',)}[level]
                    must = [t for lv, t in base_lines if lv in keep and t.strip()]
                    missing = [t for t in must if t not in here]
                    if missing:
                        out.append(viol('C15 a %s-level line disappears at -l %s' % ('/'.join(keep), level), repr(missing[:4])))
        keys.append(h(tuple(opts), sev))
    return {'violations': out, 'keys': keys}


def shrink(case):
    if len(case['sets']) > 1:
        for i in range(len(case['sets'])):
            c = copy.deepcopy(case)
            del c['sets'][i]
            yield c
    from .common import shrink_profile_lists
    yield from shrink_profile_lists(case)
    if case.get('fresh'):
        c = copy.deepcopy(case)
        c['fresh'] = False
        yield c
