"""C08 - one bad target never costs the others their results."""
import copy
import json

from .. import gen, report, wire
from .common import viol, h, compact_case
from . import multi
from .C07 import make_target

ID = 'C08'
CLAIM = "seeded search over target lists mixing healthy and failing peers x thread counts x schedules x text/JSON: one result block per target, healthy targets' reports present, run status = highest-ranked reference status, JSON stdout is one array with one element per target, each healthy target's element being its report; since round 12 also runs in which the connection-rate check takes place (targets without a Diffie-Hellman key exchange, targets gone by then), names whose resolution outlasts the time-out beside healthy targets, and - through the synchronisation seam - locks, events and pools the tool may create (a lock never released ends the run as HANG)"
TRUST = 'trusted base: executor model as for C07; failure archetypes produced by the fault layer of the simulated servers/resolver/network; per-target reference statuses from fresh single-target runs'
TECHNIQUE = 'deterministic simulation, per-target fault injection (peer, network, resolver latency) x seeded thread schedules incl. simulated locks/events/pools, history oracle over stdout and exit status'
LEVEL = 'exploration'
BUDGET = {'quick': 200, 'thorough': 2400}
NCASES = {'quick': 900, 'thorough': 6000}
RULE = ('cases: target lists of 2-4 (thorough: up to 6) entries, every tenth list a single entry, mixing healthy archetypes with failure archetypes (unresolvable, refused, black-holed, silent, '
        'close before/after banner, bad block size, bad SSH-1 CRC, truncated KEXINIT, garbage in the probe phase, version-mismatch only) in seeded positions, '
        'blank lines between entries, `--threads` 1..n, text and -j, seeded scheduler policy; reference per-target statuses come from fresh single-target runs. '
        'non-trivial: >= 1 failing and >= 1 healthy target in the list, or a single failing entry; distinct by (failure archetypes, positions, threads, format, completion order).')
ASSUMPTIONS = ['a result block is attributed to a target by its "(gen) target:" label or, for error blocks, by the host name inside the error text',
               'rank order internal error > connection error > failure > warning > good, as the README documents']

FAIL_KINDS = ['unresolvable', 'refused', 'blackhole', 'silent', 'close_before_banner', 'close_after_banner', 'bad_block', 'bad_crc', 'trunc_kexinit', 'probe_garbage',
              'vermismatch', 'stall_kexinit', 'reset_mid', 'badport', 'badport0', 'badport_nan', 'probe_resets', 'vermismatch_oneshot', 'slow_dns']
HEALTHY = ['clean', 'terrapin_marked', 'rsa2048', 'gex2048', 'cbc_etm', 'rsa4096', 'ssh1']
RANK = {0: 0, 2: 1, 3: 2, 1: 3, 255: 4}


def bad_target(rng, kind, i):
    host = '%s%d.example' % (kind.replace('_', '-'), i)
    t = {'kind': 'server', 'arch': kind, 'host': host, 'ip': '192.0.2.%d' % (100 + i), 'port': rng.choice([22, 2222])}
    if kind in ('unresolvable', 'refused', 'blackhole'):
        t['kind'] = kind
        return t
    if kind == 'slow_dns':
        # the resolver needs longer than the tool's time-out (which bounds socket reads, not the C library's lookup) to answer for this
        # name - with an error, or with the address of a host where nothing listens; the other targets' lookups are not its business
        t['kind'] = rng.choice(['unresolvable', 'refused'])
        t['dns_delay_us'] = rng.choice([2_500_000, 6_000_000, 30_000_000])
        return t
    if kind in ('badport', 'badport0', 'badport_nan'):
        # an entry whose port is outside 1-65535: must be rejected for that entry only
        t['kind'] = 'badline'
        t['port'] = 22
        t['line'] = '%s:%s' % (host, {'badport': '65536', 'badport0': '0', 'badport_nan': rng.choice(['12ab', 'ssh', '22x', '-'])}[kind])
        return t
    base = make_target(rng, 'clean', i)['profile']
    t['profile'] = base
    if kind == 'silent':
        base['admission'] = {'mode': 'silent', 'after': 0}
    elif kind == 'close_before_banner':
        base['admission'] = {'mode': 'close', 'after': 0}
    elif kind == 'close_after_banner':
        t['faults'] = [{'conn': 0, 'msg': 'kexinit', 'kind': 'close_before'}]
    elif kind == 'bad_block':
        t['faults'] = [{'conn': 0, 'msg': 'kexinit', 'kind': 'corrupt', 'off': 0, 'hex': '00000131'}]
    elif kind == 'bad_crc':
        t['profile'] = {'banner': 'SSH-1.5-OpenSSH_3.0', 'ssh2': False, 'ssh1': {'cmask': 0x48, 'amask': 0x0c, 'hkey_bits': 1024, 'skey_bits': 768}}
        t['faults'] = [{'conn': 1, 'msg': 'ssh1_pubkey', 'kind': 'corrupt', 'off': 40, 'hex': 'ff'}]
    elif kind == 'trunc_kexinit':
        t['faults'] = [{'conn': 0, 'msg': 'kexinit', 'kind': 'truncate_close', 'off': rng.choice([1, 5, 30, 200])}]
    elif kind == 'stall_kexinit':
        t['faults'] = [{'conn': 0, 'msg': 'kexinit', 'kind': 'truncate_stall', 'off': rng.choice([0, 4, 100])}]
    elif kind == 'reset_mid':
        t['faults'] = [{'conn': 0, 'msg': 'kexinit', 'kind': 'truncate_reset', 'off': rng.choice([0, 17])}]
    elif kind == 'probe_garbage':
        t['faults'] = [{'conn': 1, 'msg': 'reply', 'kind': 'garbage', 'n': 64}, {'conn': 2, 'msg': 'kexinit', 'kind': 'corrupt', 'off': 0, 'hex': '00000003'}]
    elif kind == 'vermismatch':
        t['profile'] = {'banner': 'SSH-1.5-OpenSSH_3.0', 'ssh2': False, 'ssh1': None}
    elif kind == 'vermismatch_oneshot':
        # answers the SSH-2 attempt with the version notice, then lets no second connection in
        t['profile'] = {'banner': 'SSH-1.5-OpenSSH_3.0', 'ssh2': False, 'ssh1': None}
        t['faults'] = [{'conn': 1, 'kind': rng.choice(['refuse', 'blackhole'])}] if rng.random() < 0.6 else [{'conn': 1, 'msg': 'banner', 'kind': 'truncate_reset', 'off': 0}]
    elif kind == 'probe_resets':
        # a healthy first exchange (group exchange offered), then every further connection is reset once the tool has introduced itself
        base['kex'] = ['curve25519-sha256', 'diffie-hellman-group-exchange-sha256'] + [x for x in base['kex'] if x.startswith('kex-strict')]
        base['gex'] = {'sizes': [2048, 4096], 'style': 'strict'}
        where = rng.choice(['banner', 'banner', 'kexinit'])        # instead of its identification string, or instead of its KEXINIT
        t['faults'] = [{'conn_from': 1, 'msg': where, 'kind': 'truncate_reset', 'off': 0}]
    return t


def cases(seed, tier):
    n = NCASES[tier]
    for i in range(n):
        rng = gen.case_rng(seed, ID, i)
        k = rng.choice([2, 3, 3, 4]) if tier == 'quick' else rng.choice([2, 3, 4, 5, 6])
        if i % 10 == 9:
            k = 1     # a targets file with a single entry is still a target list: one block, one array element
        nbad = rng.randrange(1, k) if k > 1 else rng.choice([0, 1, 1, 1])
        slots = ['bad'] * nbad + ['ok'] * (k - nbad)
        rng.shuffle(slots)
        targets = []
        for j, sl in enumerate(slots):
            if sl == 'bad':
                targets.append(bad_target(rng, rng.choice(FAIL_KINDS), j))
            else:
                targets.append(make_target(rng, rng.choice(HEALTHY), j))
        mode = rng.choice(['text', 'json'])
        opts = rng.choice([['-n'], ['-n', '-b'], []]) if mode == 'text' else rng.choice([['-j'], ['-jj']])
        c = {'targets': targets, 'mode': mode, 'opts': opts, 'threads': rng.choice([1, 2, k, 32]), 'sched': gen.rand_sched(rng, preempt=(tier == 'thorough' and i % 4 == 0) or (tier == 'quick' and i % 16 == 0)),
             'net': {'rtt_us': rng.choice([100, 300, 3000])}, 'pseed': rng.getrandbits(32), 'timeout': rng.choice([1, 2])}
        if rng.random() < 0.3:
            c['extra_lines'] = {str(rng.randrange(k)): ['']}
        yield c
    yield from long_cases(seed, tier)
    yield from lockstep_cases(seed, tier)
    yield from rate_cases(seed, tier)
    yield from dns_cases(seed, tier)


def lockstep_cases(seed, tier):
    """Identical healthy targets audited by two or three workers that move in step (same peer, same latency), with line-level
    pre-emption: the workers reach the same places - set-up, report, tear-down of their per-thread state - at the same moment,
    which is when code that touches state shared between workers can be caught in the middle (measured on a seeded race in the
    tear-down path: 1 hit in 300 such cases, none in 1200 cases of mixed targets)."""
    for j in range(60 if tier == 'quick' else 1200):
        rng = gen.case_rng(seed, ID, 'lockstep', j)
        kind = rng.choice(['clean', 'rsa2048', 'terrapin_marked'])
        proto = make_target(rng, kind, 0)
        targets = []
        for i in range(3):
            t = copy.deepcopy(proto)
            t['host'], t['ip'] = 'twin%d.example' % i, '192.0.2.%d' % (40 + i)
            targets.append(t)
        mode = rng.choice(['text', 'json'])
        sched = {'policy': rng.choice(['rr', 'random']), 'seed': rng.getrandbits(32), 'preempt_p': rng.choice([1 / 16.0, 1 / 8.0, 1 / 4.0]),
                 'preempt_stretch': [rng.choice([40, 400]), rng.choice([400, 4000])]}
        yield {'targets': targets, 'mode': mode, 'opts': ['-n'] if mode == 'text' else ['-j'], 'threads': rng.choice([2, 3]), 'sched': sched,
               'net': {'rtt_us': rng.choice([100, 300])}, 'pseed': rng.getrandbits(32), 'timeout': 2}


def rate_cases(seed, tier):
    """Multi-target runs in which the connection-rate check of the standard audit runs (every other case of this campaign passes
    --skip-rate-test): the check is a second phase with its own resolver query, its own sockets and its own early exits (a target
    with no Diffie-Hellman key exchange skips it), so a target can fail, or leave the phase early, while the other workers are
    about to enter it.  The round-trip time is 300 ms, which keeps the measured rate (at most 3 sockets per round trip) far below
    the 25 connections per second at which the check adds a warning, in the multi-target run and in the single-target reference
    runs alike, so that the status comparison cannot depend on scheduling."""
    for j in range(40 if tier == 'quick' else 600):
        rng = gen.case_rng(seed, ID, 'rate', j)
        k = rng.choice([2, 3, 3, 4])
        targets = []
        for i in range(k):
            r = rng.random()
            if r < 0.3:
                t = make_target(rng, rng.choice(['clean', 'rsa2048']), i)
                # no Diffie-Hellman key exchange at all: post-quantum hybrids / names the tool does not know
                t['arch'] = 'no_dh_kex'
                t['profile']['kex'] = rng.choice([['sntrup761x25519-sha512@openssh.com', 'mlkem768x25519-sha256'], ['made-up-kex@example.com'],
                                                  ['sntrup761x25519-sha512@openssh.com', 'kex-strict-s-v00@openssh.com']])
            elif r < 0.5:
                t = bad_target(rng, rng.choice(['refused', 'silent', 'close_after_banner', 'trunc_kexinit', 'unresolvable', 'reset_mid']), i)
            elif r < 0.6:
                # healthy during the audit proper, gone when the rate check starts: every connection after the probes is refused / reset / ignored
                t = make_target(rng, 'clean', i)
                t['arch'] = 'gone_for_rate_check'
                t['profile']['kex'] = ['curve25519-sha256', 'diffie-hellman-group14-sha256', 'kex-strict-s-v00@openssh.com']
                t['profile']['key'] = ['ssh-ed25519']
                t['faults'] = [{'conn_from': 2, 'kind': rng.choice(['refuse', 'blackhole'])}] if rng.random() < 0.6 else [{'conn_from': 2, 'msg': 'banner', 'kind': 'truncate_reset', 'off': 0}]
            else:
                t = make_target(rng, rng.choice(['clean', 'terrapin_marked', 'rsa2048', 'cbc_etm']), i)
            t['host'], t['ip'] = 'rate%d-%s' % (i, t['host']), '192.0.2.%d' % (60 + i)
            targets.append(t)
        mode = rng.choice(['text', 'json'])
        yield {'targets': targets, 'mode': mode, 'opts': rng.choice([['-n'], ['-n', '-b']]) if mode == 'text' else ['-j'], 'threads': rng.choice([1, 2, k, 32]),
               'sched': gen.rand_sched(rng, preempt=False), 'net': {'rtt_us': 300_000}, 'pseed': rng.getrandbits(32), 'timeout': 2, 'rate_test': True}


def dns_cases(seed, tier):
    """One or two names whose resolution takes longer than the tool's time-out (answered late with an error, or with an address where
    nothing listens) beside healthy targets, two or more workers: a lookup that is slow for one name must not cost the targets whose
    own lookups are answered at once (every connection of an audit resolves the name again, so a healthy target makes a dozen lookups
    while the slow one is pending)."""
    for j in range(30 if tier == 'quick' else 400):
        rng = gen.case_rng(seed, ID, 'dns', j)
        k = rng.choice([2, 3, 4])
        nslow = 1 if k == 2 else rng.choice([1, 1, 2])
        kinds = ['slow_dns'] * nslow + ['ok'] * (k - nslow)
        if rng.random() < 0.5:
            rng.shuffle(kinds)
        targets = [bad_target(rng, 'slow_dns', i) if kd == 'slow_dns' else make_target(rng, rng.choice(HEALTHY), i) for i, kd in enumerate(kinds)]
        mode = rng.choice(['text', 'json'])
        yield {'targets': targets, 'mode': mode, 'opts': ['-n'] if mode == 'text' else ['-j'], 'threads': rng.choice([2, k, 32]), 'sched': gen.rand_sched(rng, preempt=False),
               'net': {'rtt_us': rng.choice([100, 3000])}, 'pseed': rng.getrandbits(32), 'timeout': rng.choice([1, 2])}


def long_cases(seed, tier):
    """A run that simply takes long: a dozen or more silent targets handled by one worker, then a healthy one."""
    for j in range(2 if tier == 'quick' else 8):
        rng = gen.case_rng(seed, ID, 'long', j)
        n = rng.choice([12, 14, 20])
        targets = [bad_target(rng, rng.choice(['silent', 'silent', 'stall_kexinit', 'blackhole']), i) for i in range(n)]
        targets.insert(rng.choice([0, n // 2, n]), make_target(rng, rng.choice(HEALTHY), n))
        mode = rng.choice(['text', 'json'])
        yield {'targets': targets, 'mode': mode, 'opts': ['-n'] if mode == 'text' else ['-j'], 'threads': rng.choice([1, 1, 2]), 'sched': {'policy': 'run_to_block', 'seed': 0},
               'net': {'rtt_us': 300}, 'pseed': rng.getrandbits(32), 'timeout': rng.choice([1, 2])}


def sample(case):
    return {'targets': [{'arch': t.get('arch'), 'host': t['host'], 'port': t['port']} for t in case['targets']], 'mode': case['mode'], 'opts': case['opts'],
            'threads': case['threads'], 'sched': case['sched'], 'extra_lines': case.get('extra_lines')}


def run_case(case, ctx):
    out = []
    targets = case['targets']
    scratch = ctx.scratch()
    archs = [t.get('arch') for t in targets]
    mplan = multi.multi_plan(case, case['opts'], case['threads'], scratch)
    # a run over at most 21 targets needs minutes of simulated time at the very most: a run that is still going after 25 simulated
    # minutes (or a million events) is one that does not end
    mplan['knobs'] = dict(mplan.get('knobs') or {}, max_vtime_s=1500, max_events=1_000_000)
    mrec = ctx.run(mplan)
    if mrec.get('harness_error'):
        return {'violations': [], 'keys': []}
    singles = []
    for i in range(len(targets)):
        r = ctx.run(multi.single_plan(case, i, case['opts'], scratch))
        if r.get('harness_error'):
            return {'violations': [], 'keys': []}
        singles.append(r)
    n = len(targets)
    ctx_txt = 'archs=%r threads=%d mode=%s' % (archs, case['threads'], case['mode'])
    if mrec['outcome'] != 'exit':
        out.append(viol('C08 multi-target run did not terminate (%s)' % mrec['outcome'], ctx_txt))
        return {'violations': out, 'keys': []}
    # ---- run status = highest-ranked per-target status
    sts = [s['status'] for s in singles]
    if all(s in RANK for s in sts) and not any(t['kind'] == 'badline' for t in targets):
        want = max(sts, key=lambda s: RANK[s])
        if mrec['status'] != want:
            out.append(viol('C08 run status %s is not the highest-ranked target status %s' % (mrec['status'], want),
                            '%s\nper-target reference statuses: %r\nstdout tail:\n%s' % (ctx_txt, sts, mrec['stdout'][-1200:])))
    # ---- one block per target
    if case['mode'] == 'json':
        doc, err = report.parse_json(mrec['stdout'])
        if doc is None:
            bad = [a for a, s in zip(archs, sts) if s not in (0, 2, 3)]
            out.append(viol('C08 json: stdout is not one JSON document', '%s\nfailing archetypes: %r\n%s\nstdout head:\n%s' % (ctx_txt, bad, err, mrec['stdout'][:700])))
        elif not isinstance(doc, list):
            out.append(viol('C08 json: top-level value is not an array', ctx_txt))
        elif len(doc) != n:
            out.append(viol('C08 json: array has %s elements for %d targets' % ('fewer' if len(doc) < n else 'more', n), '%s\nlen=%d' % (ctx_txt, len(doc))))
        else:
            # every target whose own audit succeeds must find its report (not an error object) among the elements
            for i, t in enumerate(targets):
                if sts[i] in (0, 2, 3) and t['kind'] == 'server':
                    mine = [d for d in doc if isinstance(d, dict) and multi.json_target(d, targets) == i]
                    if not any(isinstance(d.get('kex'), list) or isinstance(d.get('key'), list) for d in mine):
                        out.append(viol('C08 json: the report of a healthy target is missing', '%s\ntarget %d (%s): elements for it: %s' % (ctx_txt, i, archs[i], json.dumps(mine)[:400])))
                        break
    else:
        blocks = multi.split_text_blocks(mrec['stdout'])
        blocks = [b for b in blocks if multi.norm_block(b).strip()]
        if len(blocks) != n:
            out.append(viol('C08 text: %s result blocks than targets' % ('fewer' if len(blocks) < n else 'more'),
                            '%s\nblocks=%d targets=%d\nstdout tail:\n%s' % (ctx_txt, len(blocks), n, mrec['stdout'][-1500:])))
        else:
            owners = [multi.block_target(b, targets) for b in blocks]
            # a block without a label (error blocks, SSH-1 reports) belongs to the target whose single-target output it equals
            for bi, b in enumerate(blocks):
                if owners[bi] is None:
                    nb_ = multi.norm_block(b)
                    cands = [i for i in range(n) if i not in owners and multi.norm_block(singles[i]['stdout']) == nb_]
                    if cands:
                        owners[bi] = cands[0]
            # every target whose own audit succeeds must find its labelled report among the blocks
            missing = [archs[i] for i in range(n) if i not in owners and sts[i] in (0, 2, 3)]
            if missing:
                out.append(viol('C08 text: the report of a healthy target is missing', '%s\nmissing: %r\nowners=%r' % (ctx_txt, missing, owners)))
    keys = []
    nbad = sum(1 for s in sts if s not in (0, 2, 3))
    if nbad and (nbad < n or n == 1):
        order = tuple(multi.block_target(b, targets) for b in multi.split_text_blocks(mrec['stdout'])) if case['mode'] == 'text' else ()
        keys.append(h(tuple(a if s not in (0, 2, 3) else '.' for a, s in zip(archs, sts)), case['threads'], case['mode'], order))
    counters = {'bad_targets': nbad, 'mode_' + case['mode']: 1}
    if case.get('rate_test'):
        counters['runs with the connection-rate check'] = 1
    for pos, (a, st) in enumerate(zip(archs, sts)):
        if st not in (0, 2, 3):
            counters['failing %s at position %d/%d' % (a, pos + 1, n)] = 1
    return {'violations': out, 'keys': keys, 'counters': counters}


def shrink(case):
    if len(case['targets']) > 1:
        for i in range(len(case['targets'])):
            c = copy.deepcopy(case)
            del c['targets'][i]
            c['extra_lines'] = {}
            yield c
    if case.get('extra_lines'):
        c = copy.deepcopy(case)
        c['extra_lines'] = {}
        yield c
    if case['threads'] != 1:
        c = copy.deepcopy(case)
        c['threads'] = 1
        yield c
    if case['sched'].get('policy') != 'run_to_block':
        c = copy.deepcopy(case)
        c['sched'] = {'policy': 'run_to_block', 'seed': 0}
        yield c
