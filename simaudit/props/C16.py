"""C16 - identification strings are recognised, decomposed and sanitised correctly."""
import copy
import re

from .. import gen, report, wire
from .common import viol, h, compact_case

ID = 'C16'
CLAIM = ('grammar-generated identification lines (protocol 1.x / 2.x / 1.99, software tokens over printable ASCII, optional comments with whitespace runs, CR LF / LF), preceded by '
         '0..n header lines (some containing "SSH-" in the middle, some empty), with injected non-ASCII / control bytes, and product strings of the known families at seeded versions, '
         'are sent by a simulated server over a stream that is segmented at line boundaries and - separately counted - inside lines; the shown banner parts, header lines, '
         'non-conformance flag and product line are compared with a reference parse; the displayed banner is fed back as the next run\'s banner for the round-trip clause')
TRUST = ('trusted base: the reference banner grammar (RFC 4253 section 4.2) in this module; whitespace runs inside comments are compared after collapsing (presentation)')
TECHNIQUE = 'deterministic simulation with seeded stream segmentation (line-boundary and inside-line), reference-grammar oracle, round-trip through a second invocation'
LEVEL = 'exploration'
BUDGET = {'quick': 200, 'thorough': 2400}
NCASES = {'quick': 1400, 'thorough': 14000}
RULE = ('cases: (grammar branch vector, header lines, byte injection, segmentation class). non-trivial: banner accepted or rejected with >= 1 header line or a non-default grammar '
        'branch; distinct by grammar-branch vector x segmentation class.')
ASSUMPTIONS = ['minor versions are written without leading zeros; injected bytes go to the middle of the software token, the start of the comments or the end of the line']

PRINT = ''.join(chr(c) for c in range(33, 127))
FAMILIES = [('OpenSSH_%s', 'OpenSSH', ['7.4', '8.9p1', '9.6', '6.6.1p1', '10.0', '9.6p10', '7.2p12', '9.9p2']), ('dropbear_%s', 'Dropbear SSH', ['2019.78', '0.53', '2022.83']),
            ('libssh-%s', 'libssh', ['0.9.6', '0.10.4']), ('libssh_%s', 'libssh', ['0.8.1']), ('tinyssh_%s', 'TinySSH', ['noversion', '20190101']),
            ('PuTTY_Release_%s', 'PuTTY', ['0.79', '0.64'])]
BADBYTES = [bytes([b]) for b in list(range(1, 9)) + list(range(14, 28)) + [127]] + [b'\xff', b'\xfe', b'\x80', b'\xc3\xbc', b'\xe2\x82\xac', b'\xc0']
# not printable ASCII either, but "white space" or "digits" to a Unicode-aware matcher: inside the software token they are replaced like any other
BADBYTES += [b'\t', b'\x0b', b'\x0c', b'\x1c', b'\x1d', b'\x1e', b'\x1f', b'\xc2\xa0', b'\xc2\x85', b'\xe2\x80\x83', b'\xd9\xa2']


def cases(seed, tier):
    for i in range(NCASES[tier]):
        rng = gen.case_rng(seed, ID, i)
        proto = rng.choice(['2.0', '2.0', '2.0', '1.99', '1.5', '2.1', '1.3', '2.%d' % rng.randrange(2, 30)])
        fam = None
        if rng.random() < 0.45:
            tmpl, product, versions = rng.choice(FAMILIES)
            ver = rng.choice(versions)
            software = tmpl % ver
            fam = [product, ver]
        else:
            software = ''.join(rng.choice(PRINT) for _ in range(rng.choice([1, 3, 8, 20, 60])))
            if rng.random() < 0.1:
                software = ''
        comments = None
        seps = ' '
        if rng.random() < 0.5 and software:
            words = [''.join(rng.choice(PRINT) for _ in range(rng.randrange(1, 8))) for _ in range(rng.randrange(1, 4))]
            seps = rng.choice([' ', ' ', '  ', '   '])
            comments = rng.choice([' ', '  ', ' ']).join(words)
        inject = None
        if rng.random() < 0.2 and software:
            inject = rng.choice(BADBYTES).hex()
        headers = []
        for _ in range(rng.choice([0, 0, 0, 1, 2, 5])):
            r = rng.random()
            if r < 0.5:
                headers.append('notice %d: %s' % (rng.randrange(100), ''.join(rng.choice(PRINT) for _ in range(rng.randrange(0, 30)))))
            elif r < 0.7:
                headers.append('see SSH-2.0-decoy_%d for details' % rng.randrange(10))
            elif r < 0.8:
                headers.append('')
            elif r < 0.9:
                headers.append('  SSH-2.0-indented')
            else:
                headers.append('hex:' + (b'caf\xc3\xa9 \xff\x00bin' + bytes([rng.randrange(128, 256)])).hex())
        r2 = gen.case_rng(seed, ID, i, 'long')
        if r2.random() < 0.1:
            # lines before the banner have no length limit: one of 256..2000 characters, some with an identification-like text
            # placed where a bounded reader would cut the line (255 / 256 / 1024)
            n = r2.choice([256, 300, 700, 1500, 2000])
            body = ''.join(r2.choice('abcdefghij klmnop') for _ in range(n))
            cut = r2.choice([255, 256, 1024])
            if r2.random() < 0.5 and cut + 40 < n:
                body = body[:cut] + 'SSH-1.5-legacy_gateway retired' + body[cut + 30:]
            headers.insert(r2.randrange(len(headers) + 1), 'long notice: ' + body if r2.random() < 0.5 else body)
        if r2.random() < 0.05:
            # an identification-like header line whose "digits" are not ASCII digits
            headers.insert(r2.randrange(len(headers) + 1), 'hex:' + 'SSH-\u0662.\u0660-motd gateway'.encode('utf-8').hex())
        inside = rng.random() < 0.3
        net = gen.rand_net(rng, inside_lines=inside)
        # where the injected bytes go: the middle of the software token, or the very end of the line (where a reader that trims
        # "white space" before the line ending would drop a TAB / VT / FF without a trace), or the start of the comments
        inject_at = gen.case_rng(seed, ID, i, 'inject-at').choice(['mid', 'mid', 'end', 'end', 'com'])
        # the peer may go away right after its identification line (reset before the tool has sent anything more, close, or
        # silence): whichever call then fails, the line that was received is still the peer's banner and is reported as such
        die = gen.case_rng(seed, ID, i, 'die').choice([None] * 7 + ['truncate_reset', 'truncate_close', 'truncate_stall'])
        yield {'proto': proto, 'software': software, 'sep': seps, 'comments': comments, 'inject': inject, 'inject_at': inject_at, 'die': die, 'headers': headers, 'eol': rng.choice(['\r\n', '\r\n', '\n']),
               'fam': fam, 'inside': inside, 'net': net, 'opts': rng.choice([['-n'], ['-j'], ['-n', '-b'], ['-n', '-v']]), 'pseed': rng.getrandbits(32)}


def sample(case):
    return compact_case(case)


def banner_bytes(case):
    sw = case['software'].encode('latin-1')
    at = case.get('inject_at', 'mid') if case['inject'] else None
    if at == 'com' and case['comments'] is None:
        at = 'end'
    b = bytes.fromhex(case['inject']) if case['inject'] else b''
    if at == 'mid':
        pos = len(sw) // 2
        sw = sw[:pos] + b + sw[pos:]
    line = b'SSH-' + case['proto'].encode() + b'-' + sw
    if case['comments'] is not None:
        line += case['sep'].encode() + (b if at == 'com' else b'') + case['comments'].encode('latin-1')
    if at == 'end':
        line += b
    return line


def to_shown(b):
    s = b.decode('utf-8', 'replace')
    return ''.join(c if 32 <= ord(c) <= 126 else '?' for c in s), all(32 <= ord(c) <= 126 for c in s)


def expected(case):
    line = banner_bytes(case)
    shown_line, clean = to_shown(line)
    m = re.match(r'^SSH-(\d)\.(\d+)-(\S*)(?:\s+(.*))?$', shown_line)
    maj, mnr, sw, com = m.group(1), m.group(2), m.group(3), m.group(4)
    com = re.sub(r'\s+', ' ', com.strip()) if com and com.strip() else None
    return {'protocol': '%s.%d' % (maj, int(mnr)), 'software': sw, 'comments': com, 'clean': clean}


def parts_of(shown):
    """Split a displayed banner string 'SSH-x.y-software[ comments]' into parts."""
    m = re.match(r'^SSH-(\d+\.\d+)(?:-(\S*)(?:\s+(.*))?)?$', shown or '')
    if not m:
        return None
    com = m.group(3)
    return {'protocol': m.group(1), 'software': m.group(2) if m.group(2) is not None else None, 'comments': re.sub(r'\s+', ' ', com.strip()) if com and com.strip() else None}


def run_once(case, ctx, banner_plan_str, headers, die=None):
    prof = {'banner': banner_plan_str, 'pre': headers, 'eol': case['eol'], 'kex': ['curve25519-sha256'], 'key': ['ssh-ed25519'], 'enc': ['aes128-ctr'], 'mac': ['hmac-sha2-256'],
            'comp': ['none'], 'keys': {}}
    if case['proto'].startswith('1.') and case['proto'] != '1.99':
        prof['ssh2'] = True      # the peer model still speaks SSH-2 after the line; only the identification string is under test
    plan = gen.server_plan(case['pseed'], list(case['opts']) + ['--skip-rate-test', '-2', '-t', '2', 'srv.example:2222'], prof, port=2222, net=case['net'],
                           faults=[{'conn': 0, 'msg': 'banner', 'kind': die, 'off': 10 ** 6}] if die else None, knobs={'rst_after_close': 1, 'rst_keeps_data': 1} if die else None)
    return ctx.run(plan)


def observed(case, rec):
    isjson = '-j' in case['opts']
    if isjson:
        doc, err = report.parse_json(rec['stdout'])
        if not isinstance(doc, dict):
            # a failed handshake prints the JSON document followed by the error text
            try:
                import json
                doc, _ = json.JSONDecoder().raw_decode(rec['stdout'].lstrip())
            except ValueError:
                return None
        b = doc.get('banner') or {}
        return {'raw': b.get('raw'), 'protocol': b.get('protocol'), 'software': b.get('software'), 'comments': b.get('comments') or None, 'headers': None, 'flag': None, 'softline': None}
    tr = report.TextReport(rec['stdout'], verbose='-v' in case['opts'])
    raw = tr.gen.get('banner')
    hdr = None
    plain = report.strip_ansi(rec['stdout'])
    m = re.search(r'(?ms)^\(gen\) header: (.*?)(?=^\(gen\) |^# |\Z)', plain)
    if m:
        hdr = m.group(1).rstrip('\n').split('\n')
    return {'raw': raw, 'headers': hdr, 'flag': any('banner contains non-printable ASCII' in g for g in tr.gen_lines), 'softline': tr.gen.get('software'), **(parts_of(raw) or {'protocol': None, 'software': None, 'comments': None})}


def run_case(case, ctx):
    out, keys = [], []
    line = banner_bytes(case)
    hdrs = case['headers']
    die = case.get('die') if '-j' not in case['opts'] else None      # a failed audit prints no JSON banner object
    rec = run_once(case, ctx, 'hex:' + line.hex(), hdrs, die)
    if rec.get('harness_error'):
        return {'violations': [], 'keys': []}
    segclass = 'inside-line' if case['inside'] and case['net']['seg']['mode'] != 'msg' else 'line-boundary'
    exp = expected(case)
    obs = observed(case, rec)
    branch = (case['proto'][:2], bool(case['software']), case['comments'] is not None, len(case['sep']) > 1, bool(case['inject']), len(hdrs) > 0, case['eol'] == '\n', bool(case['fam']))
    ctx_txt = 'line=%r headers=%r net=%r%s\nstdout:\n%s' % (line, hdrs, case['net'], (' peer goes away after the line: %s' % die) if die else '', rec['stdout'][:700])
    if rec['outcome'] != 'exit' or rec['status'] not in (0, 1, 2, 3):
        out.append(viol('C16 audit crashed (status %s)' % rec['status'], ctx_txt))
        return {'violations': out, 'keys': []}
    if obs is None or obs['raw'] is None:
        out.append(viol('C16 a well-formed identification line was not accepted as the banner (%s segmentation)' % segclass, ctx_txt))
        return {'violations': out, 'keys': []}
    for part in ('protocol', 'software', 'comments'):
        want = exp[part]
        got = obs[part]
        if part == 'software' and want == '' and got in ('', None):
            continue
        if got != want:
            out.append(viol('C16 shown %s differs from the line sent (%s segmentation)' % (part, segclass), 'want %r got %r\n%s' % (want, got, ctx_txt)))
    if obs['flag'] is not None and obs['flag'] != (not exp['clean']):
        out.append(viol('C16 non-conformance flag %s' % ('missing for a banner with non-printable bytes' if not exp['clean'] else 'raised for a printable banner'), ctx_txt))
    if obs['headers'] is not None or (not any(o in ('-j',) for o in case['opts'])):
        want_h = [wire.nb(x).decode('utf-8', 'replace') if x.startswith('hex:') else x for x in hdrs]
        want_h = [x.rstrip() for x in want_h if x.strip()]
        got_h = [x.rstrip() for x in (obs['headers'] or [])]
        if '-j' not in case['opts'] and got_h != want_h:
            out.append(viol('C16 header lines shown differ from the lines sent before the banner (%s segmentation)' % segclass, 'want %r\ngot  %r\n%s' % (want_h, got_h, ctx_txt)))
    if case['fam'] and not case['inject'] and obs.get('softline') is not None:
        product, ver = case['fam']
        sl = obs['softline']
        vnum = re.match(r'^[\d.]*\d', ver)
        if not sl.startswith(product + ' ') or (vnum and vnum.group(0) not in sl) or (not vnum and ver not in sl):
            out.append(viol('C16 product/version not extracted for a known family (%s)' % product, 'software line %r for %r' % (sl, case['software'])))
        elif product == 'OpenSSH' and re.search(r'p\d+$', ver) and not re.match(r'^OpenSSH %s(?!\d)' % re.escape(ver), sl):
            out.append(viol('C16 patch level of a known family shown differently from the software string (OpenSSH)', 'software line %r for %r' % (sl, case['software'])))
    elif case['fam'] and not case['inject'] and '-j' not in case['opts'] and obs.get('softline') is None:
        out.append(viol('C16 known product family not recognised (%s)' % case['fam'][0], ctx_txt))
    # round trip: feed the displayed banner back
    if obs['raw'] and exp['clean']:
        c2 = dict(case)
        rec2 = run_once(case, ctx, obs['raw'], [])
        if not rec2.get('harness_error'):
            obs2 = observed(case, rec2)
            if obs2 is None or obs2['raw'] is None:
                out.append(viol('C16 the displayed banner is not accepted when sent back', 'displayed %r' % obs['raw']))
            elif any(obs2[k] != obs[k] for k in ('protocol', 'software', 'comments')):
                out.append(viol('C16 parsing the displayed banner again gives different parts', 'first %r\nsecond %r' % ({k: obs[k] for k in ('protocol', 'software', 'comments')},
                                                                                                                     {k: obs2[k] for k in ('protocol', 'software', 'comments')})))
    if hdrs or any(branch[i] for i in (2, 3, 4, 6)) or branch[0] != '2.':
        keys.append(h(branch, segclass))
    return {'violations': out, 'keys': keys, 'counters': {segclass: 1}}


def shrink(case):
    if case['headers']:
        for i in range(len(case['headers'])):
            c = copy.deepcopy(case)
            del c['headers'][i]
            yield c
    if case['net'].get('seg', {}).get('mode') != 'msg':
        c = copy.deepcopy(case)
        c['net'] = {'rtt_us': 200, 'seg': {'mode': 'msg'}}
        yield c
        c = copy.deepcopy(case)
        c['net'] = {'rtt_us': 200, 'seg': {'mode': 'mss', 'mss': 12, 'banner_atomic': not case['inside']}, 'gap_us': 500}
        yield c
    if case['comments'] is not None:
        c = copy.deepcopy(case)
        c['comments'] = None
        yield c
    if case['inject']:
        c = copy.deepcopy(case)
        c['inject'] = None
        yield c
    if len(case['software']) > 3 and not case['fam']:
        c = copy.deepcopy(case)
        c['software'] = case['software'][:len(case['software']) // 2]
        yield c
    if case['opts'] != ['-n']:
        c = copy.deepcopy(case)
        c['opts'] = ['-n']
        yield c
