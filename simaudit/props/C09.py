"""C09 - no peer can crash, hang or fool the auditor (fault enumeration over every (connection, message, fault) site)."""
import copy

from .. import gen, report, wire
from .common import CATS, viol, h, compact_case

ID = 'C09'
CLAIM = 'for nine transcript archetypes every (connection, message) site of an honest run receives faults: quick = seeded sample of single faults and pairs; thorough = systematic single-fault sweep (truncate+close/stall/reset at byte offsets, every length field x 6 values, every message-type byte x 12 values, dup/drop/garbage/inserted DEBUG/IGNORE/lines, refused/black-holed connection k) plus seeded pairs; judged on termination within a virtual-time bound, documented exit status, and report-iff-well-formed-handshake'
TRUST = 'trusted base: simulated TCP (no reordering/duplication/short writes, by construction of TCP), virtual clock, the independent wire decoder that classifies the delivered handshake as well-formed / malformed / unclear; the slow-drip peer is not judged'
TECHNIQUE = 'deterministic simulation with byte- and connection-level fault injection at enumerated sites, virtual-time termination bound'
LEVEL = 'fault_enumeration'
BUDGET = {'quick': 200, 'thorough': 3000}
NRANDOM = {'quick': 3000, 'thorough': 20000}
RULE = ('for each transcript archetype (ed25519-only, RSA family, RSA/Ed25519 certificates, DH-group probe, group exchange in three selection '
        'styles, SSH-1, client role) an honest run yields the (connection, message) sites; cases place one fault (quick: seeded sample; '
        'thorough: systematic sweep = truncate-and-close / truncate-and-stall / reset at byte offsets, every length field set to '
        '0/len-1/len+1/2^31/2^32-1, every message type byte replaced, duplicate, MSG_DEBUG/MSG_IGNORE/extra pre-banner lines inserted, '
        'garbage, refused/black-holed connection k) or a seeded pair of faults, under a seeded segmentation/latency schedule. '
        'non-trivial: the fault fired; distinct by (archetype, connection, message, fault kind, offset bucket).')
ASSUMPTIONS = ['termination bound: virtual time <= 4 x timeout x (connections + 1) + 2 s + time the peers kept data in flight (latency, segment gaps, injected delays); '
               'the slow-drip peer (one byte just inside every timeout) defeats per-read timeouts by construction and is not judged',
               '"well-formed handshake" is judged by the independent decoder on the bytes actually delivered on connection 0; unclear cases (padding < 4, '
               'trailing bytes, debug before KEXINIT, names with control characters) accept either treatment']

BASE = {'comp': ['none', 'zlib@openssh.com'], 'enc': ['chacha20-poly1305@openssh.com', 'aes128-ctr', 'aes256-gcm@openssh.com'],
        'mac': ['hmac-sha2-256-etm@openssh.com', 'hmac-sha2-512', 'umac-128@openssh.com']}


def _p(**kw):
    p = copy.deepcopy(BASE)
    p.update(kw)
    return p


ARCH = {
    'ed25519': _p(banner='SSH-2.0-OpenSSH_9.6', kex=['curve25519-sha256', 'sntrup761x25519-sha512@openssh.com', 'kex-strict-s-v00@openssh.com'], key=['ssh-ed25519'],
                  keys={'ssh-ed25519': {}}),
    'rsa': _p(banner='SSH-2.0-OpenSSH_8.9p1 Ubuntu-3', kex=['curve25519-sha256@libssh.org', 'ecdh-sha2-nistp256'], key=['rsa-sha2-512', 'rsa-sha2-256', 'ssh-rsa', 'ecdsa-sha2-nistp256'],
              keys={'ssh-rsa': {'bits': 2048}, 'ecdsa-sha2-nistp256': {}}),
    'cert': _p(banner='SSH-2.0-OpenSSH_8.0', kex=['ecdh-sha2-nistp384', 'curve25519-sha256'], key=['ssh-rsa-cert-v01@openssh.com', 'ssh-ed25519-cert-v01@openssh.com', 'ssh-rsa'],
               keys={'ssh-rsa': {'bits': 3072}, 'ssh-rsa-cert-v01@openssh.com': {'bits': 3072, 'ca_type': 'ssh-rsa', 'ca_bits': 2048},
                     'ssh-ed25519-cert-v01@openssh.com': {'ca_type': 'ecdsa-sha2-nistp256', 'ca_bits': 0}}),
    'dh14': _p(banner='SSH-2.0-dropbear_2019.78', kex=['diffie-hellman-group14-sha256', 'diffie-hellman-group14-sha1'], key=['ssh-rsa', 'ssh-dss'],
               keys={'ssh-rsa': {'bits': 1024}, 'ssh-dss': {}}, debug_before_reply=1),
    'gex_openssh': _p(banner='SSH-2.0-OpenSSH_7.4', kex=['diffie-hellman-group-exchange-sha256', 'curve25519-sha256'], key=['ssh-ed25519'], keys={'ssh-ed25519': {}},
                      gex={'sizes': [1024], 'style': 'openssh', 'grp_min': 2048}),
    'gex_strict': _p(banner='SSH-2.0-Sim_1.0', kex=['curve25519-sha256', 'diffie-hellman-group-exchange-sha1', 'diffie-hellman-group-exchange-sha256'], key=['ssh-ed25519'],
                     keys={'ssh-ed25519': {}}, gex={'sizes': [1024, 2048, 4096], 'style': 'strict'}),
    'gex_roundup': _p(banner='SSH-2.0-libssh_0.9.6', kex=['diffie-hellman-group-exchange-sha256'], key=['rsa-sha2-256'], keys={'ssh-rsa': {'bits': 4096}},
                      gex={'sizes': [1536, 3072], 'style': 'roundup'}),
    'rate': _p(banner='SSH-2.0-OpenSSH_9.6', kex=['curve25519-sha256', 'diffie-hellman-group14-sha256'], key=['ssh-ed25519'], keys={'ssh-ed25519': {}}),
    # lines before the identification string (a login notice), on every connection
    'greeter': _p(banner='SSH-2.0-OpenSSH_8.9p1 Ubuntu-3ubuntu0.6', pre=['Welcome to the gateway.', 'Authorised use only.'], kex=['curve25519-sha256', 'kex-strict-s-v00@openssh.com'],
                  key=['ssh-ed25519', 'rsa-sha2-512'], keys={'ssh-ed25519': {}, 'ssh-rsa': {'bits': 3072}}),
    # a tarpit: a finite greeting, one line at a time, each line just inside the reader's timeout (pre_gap_us is set per case from -t)
    'tarpit': _p(banner='SSH-2.0-OpenSSH_8.9p1 Ubuntu-3ubuntu0.6', pre=['%08x tarpit' % (i * 2654435761 % 2 ** 32) for i in range(25)], kex=['curve25519-sha256', 'kex-strict-s-v00@openssh.com'],
                 key=['ssh-ed25519'], keys={'ssh-ed25519': {}}),
    'ssh1': {'banner': 'SSH-1.5-OpenSSH_3.4', 'ssh2': False, 'ssh1': {'cmask': 0x4c, 'amask': 0x3c, 'hkey_bits': 1024, 'skey_bits': 768}},
    # answers every identification line, SSH-2 or SSH-1, with the version-mismatch notice and hangs up (a gateway / tarpit)
    'mismatch_only': {'banner': 'SSH-1.5-LegacyGate_1.0', 'ssh2': False, 'ssh1': None},
    'client': _p(banner='SSH-2.0-OpenSSH_9.6', kex=['curve25519-sha256', 'ext-info-c', 'kex-strict-c-v00@openssh.com'], key=['ssh-ed25519', 'rsa-sha2-512'], pre=[]),
}
TEXT_OPTS = [['-n'], ['-n'], [], ['-n', '-v'], ['-n', '-b']]
LEN_MUT = ['zero', 'minus1', 'plus1', 'half', '2^31', '2^32-1']
TYPE_MUT = [0, 1, 2, 4, 20, 21, 30, 31, 32, 33, 34, 255]
_transcripts = {}


def base_plan(arch, opts, timeout, net, faults, seed, knobs=None, keep=False):
    prof = copy.deepcopy(ARCH[arch])
    if arch == 'tarpit':
        prof['pre_gap_us'] = int(0.8 * (timeout or 5) * 1_000_000)
    if arch == 'client':
        argv = list(opts) + ['-c', '-p', '2222'] + (['-t', str(timeout)] if timeout else ['-t', '5'])
        plan = gen.client_plan(seed, argv, prof, port=2222, net=net, knobs=knobs, faults=faults)
    else:
        argv = list(opts) + ([] if arch == 'rate' else ['--skip-rate-test']) + (['-t', str(timeout)] if timeout else []) + ['srv.example:2222']
        plan = gen.server_plan(seed, argv, prof, port=2222, net=net, knobs=knobs, faults=faults)
    plan['keep_tx'] = True
    if keep:
        plan['keep_tx_msgs'] = True
    return plan


def transcript(arch):
    """Honest run of the archetype: [(conn, idx, tag, bytes)] of everything the peer sent."""
    if arch in _transcripts:
        return _transcripts[arch]
    from .. import runner
    rec = runner.run_forked(base_plan(arch, ['-n'], 5, {'rtt_us': 200}, None, 7, keep=True))
    if rec.get('harness_error'):
        raise RuntimeError('transcript %s: %s' % (arch, rec['harness_error']))
    peer = rec['clients'][0] if arch == 'client' else rec['servers'][0]
    out = []
    for c in peer['conns']:
        for t in c['tx']:
            out.append((c['ordinal'], t['idx'], t['tag'], bytes.fromhex(t['hex'])))
    _transcripts[arch] = (out, len(peer['conns']), rec['status'])
    return _transcripts[arch]


def _mut_value(kind, cur, width):
    top = (1 << (8 * width)) - 1
    v = {'zero': 0, 'minus1': max(cur - 1, 0), 'plus1': cur + 1, 'half': cur // 2, '2^31': 1 << 31, '2^32-1': (1 << 32) - 1}[kind]
    return min(v, top)


def site_faults(conn, idx, tag, data, systematic, rng):
    """Fault descriptions for one message."""
    out = []
    n = len(data)
    text = tag in ('pre', 'banner', 'vermismatch', 'text')
    fields = wire.length_fields(tag, data)
    if systematic:
        offs = set(range(0, min(n, 40)))
        offs.update(range(max(0, n - 12), n))
        offs.update(range(0, n, 37))
        for off, w, _nm, _v in fields:
            offs.update((off, off + 1, off + w, off + w + 1))
        offs = sorted(o for o in offs if 0 <= o < n)
    else:
        offs = sorted(set([0, rng.randrange(n), rng.randrange(n), n - 1] + [f[0] + rng.choice([0, 1, f[1]]) for f in (fields[:] if fields else [])][:3]))
        offs = [o for o in offs if 0 <= o < n]
    for off in offs:
        for kind in ('truncate_close', 'truncate_stall'):
            out.append({'conn': conn, 'msg': idx, 'kind': kind, 'off': off})
    for off in offs[::3] if systematic else offs[:1]:
        out.append({'conn': conn, 'msg': idx, 'kind': 'truncate_reset', 'off': off})
    for off, w, name, cur in fields:
        if cur is None or name == 'msg_type':
            continue
        for m in LEN_MUT:
            v = _mut_value(m, cur, w)
            if v == cur:
                continue
            out.append({'conn': conn, 'msg': idx, 'kind': 'corrupt', 'off': off, 'hex': v.to_bytes(w, 'big').hex(), 'field': name, 'mut': m})
    for off, w, name, cur in fields:
        if name == 'msg_type':
            for t in TYPE_MUT:
                if t != cur:
                    out.append({'conn': conn, 'msg': idx, 'kind': 'corrupt', 'off': off, 'hex': '%02x' % t, 'field': 'msg_type', 'mut': str(t)})
    out.append({'conn': conn, 'msg': idx, 'kind': 'dup'})
    out.append({'conn': conn, 'msg': idx, 'kind': 'drop'})
    out.append({'conn': conn, 'msg': idx, 'kind': 'close_before'})
    out.append({'conn': conn, 'msg': idx, 'kind': 'garbage', 'n': rng.choice([1, 7, 8, 64, 300])})
    out.append({'conn': conn, 'msg': idx, 'kind': 'delay', 'frac': rng.choice([0.001, 0.3, 0.45])})
    if text:
        out.append({'conn': conn, 'msg': idx, 'kind': 'insert_before', 'hex': (b'extra line %d\r\n' % rng.randrange(100) * rng.choice([1, 3, 40])).hex(), 'what': 'lines'})
        out.append({'conn': conn, 'msg': idx, 'kind': 'insert_before', 'hex': (b'\x00\xff\xfe binary \x80 junk\n').hex(), 'what': 'binline'})
    else:
        dbg = wire.frame(bytes([wire.MSG_DEBUG, 0]) + wire.sstr('dbg') + wire.sstr(''))
        ign = wire.frame(bytes([wire.MSG_IGNORE]) + wire.sstr('x' * rng.choice([0, 5, 300])))
        out.append({'conn': conn, 'msg': idx, 'kind': 'insert_before', 'hex': dbg.hex(), 'what': 'debug'})
        out.append({'conn': conn, 'msg': idx, 'kind': 'insert_before', 'hex': (dbg * 3).hex(), 'what': 'debug3'})
        out.append({'conn': conn, 'msg': idx, 'kind': 'insert_before', 'hex': ign.hex(), 'what': 'ignore'})
    for _ in range(4 if systematic else 1):
        off = rng.randrange(n)
        out.append({'conn': conn, 'msg': idx, 'kind': 'corrupt', 'off': off, 'hex': '%02x' % (data[off] ^ (1 << rng.randrange(8))), 'field': 'byteflip', 'mut': 'flip'})
    return out


def all_sites(arch, systematic, rng):
    tr, nconn, _ = transcript(arch)
    out = []
    for conn, idx, tag, data in tr:
        out.extend(site_faults(conn, idx, tag, data, systematic, rng))
    if arch != 'client':
        for k in range(nconn + 1):
            out.append({'conn': k, 'kind': 'refuse'})
            out.append({'conn': k, 'kind': 'blackhole'})
    return out


def cases(seed, tier):
    archs = sorted(a for a in ARCH if a != 'tarpit')
    idx = 0
    yield from listen_cases(seed, tier)
    # peers that pace what they send so that no single read times out: a finite greeting of 25 lines, one per 0.8 x timeout (then the
    # banner, or silence), and a KEXINIT delivered 64 bytes at a time at the same pace; the time such a peer can hold the tool is part of
    # the bound ("proportional to the configured timeout times the number of connections"), so pacing is not added to the allowance
    for T in (1, 2, 5):
        yield {'arch': 'tarpit', 'faults': [], 'opts': ['-n'], 'timeout': T, 'net': {'rtt_us': 200, 'seg': {'mode': 'msg'}}, 'pseed': 1, 'paced': True}
        yield {'arch': 'tarpit', 'faults': [{'conn': 0, 'msg': 'banner', 'kind': 'truncate_stall', 'off': 0}], 'opts': ['-n'], 'timeout': T, 'net': {'rtt_us': 200, 'seg': {'mode': 'msg'}},
               'pseed': 1, 'paced': True}
        yield {'arch': 'ed25519', 'faults': [], 'opts': ['-n'], 'timeout': T, 'net': {'rtt_us': 200, 'gap_us': int(0.8 * T * 1_000_000), 'seg': {'mode': 'mss', 'mss': 64, 'banner_atomic': True}},
               'pseed': 1, 'paced': True}
    if tier == 'thorough':
        for arch in archs:
            rng = gen.case_rng(seed, ID, arch, 'sweep')
            for f in all_sites(arch, True, rng):
                yield {'arch': arch, 'faults': [f], 'opts': ['-n'], 'timeout': 2, 'net': {'rtt_us': 200, 'seg': {'mode': 'msg'}}, 'pseed': 1}
                idx += 1
    # compound faults on one message: an inserted DEBUG/IGNORE packet followed by a damaged one (thorough: all; quick: a seeded sample)
    compound = []
    for arch in archs:
        rng = gen.case_rng(seed, ID, arch, 'compound')
        sites = all_sites(arch, False, rng)
        ins = [f for f in sites if f['kind'] == 'insert_before' and f.get('what') in ('debug', 'ignore')]
        for a in ins:
            for b in sites:
                if b.get('conn') == a['conn'] and b.get('msg') == a['msg'] and b['kind'] in ('corrupt', 'garbage', 'truncate_close', 'truncate_stall', 'dup') and b.get('field') in (None, 'packet_length', 'padding_length', 'msg_type'):
                    compound.append({'arch': arch, 'faults': [copy.deepcopy(a), copy.deepcopy(b)], 'opts': ['-n'], 'timeout': 2, 'net': {'rtt_us': 200, 'seg': {'mode': 'msg'}}, 'pseed': 1})
    if tier != 'thorough':
        compound = gen.case_rng(seed, ID, 'compound-pick').sample(compound, min(len(compound), 600))
    for c in compound:
        yield c
    # the archetypes themselves, without any fault, under every option set (the baseline every faulty run is a departure from)
    for arch in archs:
        for opts in TEXT_OPTS:
            yield {'arch': arch, 'faults': [], 'opts': list(opts), 'timeout': 2, 'net': {'rtt_us': 200, 'seg': {'mode': 'msg'}}, 'pseed': 1}
    # ... and the same honest peers under every way of cutting their bytes into deliveries (lines cut anywhere, several messages in one piece)
    for arch in archs:
        for j, seg in enumerate(({'mode': 'byte', 'banner_atomic': False}, {'mode': 'mss', 'mss': 7, 'banner_atomic': False}, {'mode': 'mss', 'mss': 64, 'banner_atomic': False},
                                 {'mode': 'rand', 'cuts': 6, 'banner_atomic': False}, {'mode': 'rand', 'cuts': 2, 'banner_atomic': False})):
            rng = gen.case_rng(seed, ID, arch, 'cut', j)
            yield {'arch': arch, 'faults': [], 'opts': ['-n'], 'timeout': 2, 'net': {'rtt_us': rng.choice([40, 200, 8000]), 'gap_us': rng.choice([0, 300, 20000]), 'seg': seg},
                   'pseed': rng.getrandbits(32)}
    # well-formed messages that carry hostile values: a group whose modulus / generator are tiny or degenerate (the tool computes with them)
    for arch in archs:
        tr, _n, _ = transcript(arch)
        groups = [(c, idx) for c, idx, tag, _d in tr if tag == 'group']
        rng = gen.case_rng(seed, ID, arch, 'values')
        picked = groups if tier == 'thorough' else groups[:1] + (rng.sample(groups[1:], 1) if len(groups) > 1 else [])
        for conn, midx in picked:
            for pv in (0, 1, 2, 3, 4, 5, 6, 7, 8, 9, 15, 16, 17, 255, 256, 65537, (1 << 64) - 1, 1 << 64, (1 << 2048) + 1, (1 << 16384) + 1, (1 << 32768) + 1, (1 << 131072) + 1):
                gvs = sorted({0, 1, 2, max(pv - 1, 0), pv, pv + 1}) if (tier == 'thorough' or pv < 20) else (0, 2)
                if pv in (5, 7, 17, 65537):
                    gvs = list(gvs) + [1 << 20000]       # a generator of thousands of digits beside a small modulus
                for gv in gvs:
                    grp = wire.frame(bytes([wire.MSG_GEX_GROUP]) + wire.mpint(pv) + wire.mpint(gv))
                    yield {'arch': arch, 'faults': [{'conn': conn, 'msg': midx, 'kind': 'replace', 'hex': grp.hex(), 'field': 'group_values', 'mut': 'p=%d g=%d' % (pv if pv < 1 << 20 else pv.bit_length(), gv if gv < 1 << 20 else gv.bit_length())}],
                           'opts': ['-n'], 'timeout': 2, 'net': {'rtt_us': 200, 'seg': {'mode': 'msg'}}, 'pseed': 1}
            # a well-framed group whose modulus takes a megabyte: whatever the tool does with the field before it refuses the size is its
            # own computation, which no time-out covers (20 s of processor time without a simulated call is the outcome REAL_TIME_EXCEEDED)
            if (conn, midx) == picked[0]:
                for nbytes in ((1 << 20),) if tier != 'thorough' else ((1 << 18), (1 << 20)):
                    grp = wire.frame(bytes([wire.MSG_GEX_GROUP]) + wire.mpint((1 << (8 * nbytes - 2)) + 1) + wire.mpint(2))
                    yield {'arch': arch, 'stress': True, 'faults': [{'conn': conn, 'msg': midx, 'kind': 'replace', 'hex': grp.hex(), 'field': 'group_values', 'mut': 'p of %d bytes' % nbytes}],
                           'opts': ['-n'], 'timeout': 2, 'net': {'rtt_us': 200, 'seg': {'mode': 'msg'}}, 'pseed': 1}
    # identification lines built to stress whatever parses them (long runs of one character class, nested repetition): parsing
    # time is the tool's own, no timeout covers it
    stress = ['SSH-2.0-FooSSH_1.0 ' + 'A' * 64, 'SSH-2.0-FooSSH_1.0 ' + 'A' * 40 + ' tail', 'SSH-2.0-' + 'a' * 5000, 'SSH-2.0-OpenSSH_' + '9' * 3000, 'SSH-2.0-OpenSSH_' + '1.' * 1500 + '1',
              'SSH-2.0-dropbear_' + '2020.' * 400 + '1', 'SSH-2.0-x ' + ' ' * 3000 + 'y', 'SSH-2.0-libssh-' + '0.' * 1000 + '1', 'SSH-2.0-' + '-' * 4000, 'SSH-2.0-Foo_1.0 ' + 'word ' * 800,
              'SSH-2.0-' + '(' * 3000, 'SSH-2.0-OpenSSH_7.4p' + '1' * 3000, 'SSH-2.0-Foo_1.0 ' + 'a1_' * 30 + ': x', 'SSH-1.99-' + 'A_' * 2000]
    for arch in ('ed25519', 'client', 'mismatch_only'):
        tr, _n, _ = transcript(arch)
        b = next(((c, idx) for c, idx, tag, _d in tr if tag == 'banner'), None)
        if b is None:
            continue
        for j, line in enumerate(stress if tier == 'thorough' or arch == 'ed25519' else stress[:3]):
            yield {'arch': arch, 'stress': True, 'faults': [{'conn': b[0], 'msg': b[1], 'kind': 'replace', 'hex': (line.encode() + b'\r\n').hex(), 'field': 'banner_stress', 'mut': 'line %d' % j}],
                   'opts': ['-n'], 'timeout': 2, 'net': {'rtt_us': 200, 'seg': {'mode': 'msg'}}, 'pseed': 1}
    # well-framed packets (right length fields, padding, SSH-1 checksum) whose payload ends early: the framing layer accepts them, the
    # message parsers have to cope
    import struct as _struct
    for arch in archs:
        tr, _n, _ = transcript(arch)
        rng = gen.case_rng(seed, ID, arch, 'reframed')
        msgs = [(c, idx, tag, d) for c, idx, tag, d in tr if tag in ('kexinit', 'reply', 'group', 'ssh1_pubkey')]
        if tier != 'thorough':
            firsts = {}
            for m in msgs:
                firsts.setdefault(m[2], m)
            msgs = list(firsts.values())
        for conn, midx, tag, data in msgs:
            if tag == 'ssh1_pubkey':
                plen = _struct.unpack('>I', data[:4])[0]
                pad = 8 - plen % 8
                body = data[4 + pad:4 + pad + plen - 4]
                mtype, payload = body[0], body[1:]
            else:
                got = wire.parse_frame(bytearray(data))
                if got is None:
                    continue
                mtype, payload = got[1][0], got[1][1:]
            n = len(payload)
            cuts = sorted(set([0, 1, 2, 3, 4, 5, 8, 16, 17, 20, 21, n // 2, n - 5, n - 4, n - 1] + [rng.randrange(n) for _ in range(4 if tier != 'thorough' else 24)]))
            for k in [c for c in cuts if 0 <= c < n]:
                pkt = wire.frame1(mtype, payload[:k]) if tag == 'ssh1_pubkey' else wire.frame(bytes([mtype]) + payload[:k])
                yield {'arch': arch, 'faults': [{'conn': conn, 'msg': midx, 'kind': 'replace', 'hex': pkt.hex(), 'field': 'reframed_payload', 'mut': 'cut@%d' % k}],
                       'opts': ['-n'], 'timeout': 2, 'net': {'rtt_us': 200, 'seg': {'mode': 'msg'}}, 'pseed': 1}
    pools = {}
    for i in range(NRANDOM[tier]):
        rng = gen.case_rng(seed, ID, i)
        arch = rng.choice(archs)
        if arch not in pools:
            pools[arch] = all_sites(arch, False, gen.case_rng(seed, ID, arch, 'pool'))
        pool = pools[arch]
        nf = 1 if rng.random() < 0.75 else 2
        faults = [copy.deepcopy(rng.choice(pool)) for _ in range(nf)]
        if nf == 2 and rng.random() < 0.5 and 'msg' in faults[0]:
            same = [f for f in pool if f.get('conn') == faults[0]['conn'] and f.get('msg') == faults[0]['msg'] and f['kind'] != faults[0]['kind']]
            if same:
                faults[1] = copy.deepcopy(rng.choice(same))
        net = gen.rand_net(rng)
        if net['rtt_us'] > 60000:
            net['rtt_us'] = 60000
        yield {'arch': arch, 'faults': faults, 'opts': rng.choice(TEXT_OPTS), 'timeout': rng.choice([1, 2, 5, 0, 0]), 'net': net,
               'knobs': gen.rand_knobs(rng), 'pseed': rng.getrandbits(32)}


def sample(case):
    return compact_case(case)


def _offset_bucket(f):
    off = f.get('off')
    if off is None:
        return '-'
    return 'o%d' % off if off < 8 else ('o8-31' if off < 32 else ('o32-255' if off < 256 else 'o256+'))


def fault_key(arch, f):
    return h(arch, f.get('conn'), f.get('msg'), f['kind'], f.get('field'), f.get('mut'), f.get('what'), _offset_bucket(f))


def _sig_site(rec):
    """Stable call-site text for an uncaught exception: last frame inside ssh_audit."""
    tb = rec['stdout'] if 'Traceback' in rec['stdout'] else (rec.get('exc') or rec['stderr'])
    last = None
    exc = None
    lines = tb.strip().split('\n')
    for i, ln in enumerate(lines):
        ln = ln.strip()
        if ln.startswith('File "') and '/ssh_audit/' in ln:
            parts = ln.split('"')
            fn = parts[1].split('/ssh_audit/')[-1]
            func = ln.rsplit(' in ', 1)[-1]
            last = '%s:%s' % (fn, func)
    for ln in reversed(lines):
        if ln and not ln.startswith(' '):
            exc = ln.split(':')[0].strip()
            break
    return '%s at %s' % (exc, last)


def judge(case, rec, out):
    arch = case['arch']
    T = case['timeout'] or 5      # 0 = no -t option: the documented default of 5 s applies
    fk = '+'.join(sorted(f['kind'] + ('/' + f['field'] if f.get('field') else '') for f in case['faults']))
    if rec['outcome'] != 'exit':
        out.append(viol('C09 %s: run did not terminate (%s)' % (arch, rec['outcome']), 'faults=%r\nstdout tail:\n%s' % (case['faults'], rec['stdout'][-800:])))
        return
    # (2) documented status, no traceback
    if rec['status'] not in (0, 1, 2, 3):
        out.append(viol('C09 uncaught %s (status %s)' % (_sig_site(rec), rec['status']),
                        'arch=%s faults=%r\nstdout tail:\n%s\nstderr tail:\n%s' % (arch, case['faults'], rec['stdout'][-1500:], rec['stderr'][-600:])))
        return
    # (1) bounded virtual time
    bound = 4 * T * 1_000_000 * (rec['nconns'] + len([c for c in rec['connects'] if c[3] != 'ok']) + 1) + 2_000_000 + (rec.get('net_time_us', 0) if not case.get('paced') else 0)
    if rec['vtime_us'] > bound and case.get('paced'):
        what = 'KEXINIT in 64-byte pieces' if arch != 'tarpit' else ('greeting lines then silence' if case['faults'] else 'greeting lines')
        out.append(viol('C09 paced peer (%s): held the tool longer than the timeout bound' % what, 'every piece arrives 0.8 x timeout after the one before, so no single read times out\n'
                        'vtime=%.1fs bound=%.1fs (4 x timeout x (connections + 1) + 2 s) conns=%d timeout=%ss' % (rec['vtime_us'] / 1e6, bound / 1e6, rec['nconns'], T)))
    elif rec['vtime_us'] > bound:
        out.append(viol('C09 %s: took longer than the timeout bound (%s)' % (arch, fk), 'vtime=%.1fs bound=%.1fs conns=%d faults=%r' % (
            rec['vtime_us'] / 1e6, bound / 1e6, rec['nconns'], case['faults'])))
    # (3) report iff the first handshake was well-formed
    peer = rec['clients'][0] if arch == 'client' else rec['servers'][0]
    conns = peer['conns']
    verdict, why, exp = 'unclear', '', None
    if arch == 'ssh1':
        # two connections: version mismatch on the first, SSH-1 public key on the second
        touched0 = [t for c in conns[:1] for t in c['tx'] if not t['intact']]
        touched1 = [t for c in conns[1:2] for t in c['tx'] if not t['intact']]
        refused = any(f['kind'] in ('refuse', 'blackhole') and f.get('conn') in (0, 1) for f in case['faults'])
        if not touched0 and not touched1 and not refused and len(conns) >= 2 and any(t['tag'] == 'ssh1_pubkey' for t in conns[1]['tx']):
            verdict = 'well'
            cm, am = ARCH['ssh1']['ssh1']['cmask'], ARCH['ssh1']['ssh1']['amask']
            exp = {'key': ['ssh-rsa1'], 'enc': [wire.SSH1_CIPHERS[i] for i in range(7) if cm & (1 << i)], 'aut': [wire.SSH1_AUTHS[i] for i in range(1, 7) if am & (1 << i)]}
        elif not touched0 and (any(f['kind'] in ('refuse', 'blackhole') and f.get('conn') == 1 for f in case['faults']) or any(
                k in ('truncate_close', 'truncate_stall', 'truncate_reset', 'close_before', 'drop') and (k != 'truncate_close' or t['sent'] < t['len'] - 2)
                for t in touched1 for k in t['faults'])):
            # the SSH-1 connection itself was cut short (a fault on the first connection's text is left unjudged)
            verdict, why = 'ill', 'SSH-1 connection truncated/dropped/refused'
    else:
        if not conns:
            verdict, why = 'ill', 'no connection accepted'
        else:
            stream = bytes.fromhex(conns[0].get('delivered_hex', ''))
            verdict, why = wire.classify_handshake(stream)
            if verdict == 'well':
                i = stream.find(b'\n', stream.find(b'SSH-')) + 1
                rest = stream[i:]
                got = wire.parse_frame(rest)
                while got[1][:1] in (bytes([wire.MSG_IGNORE]), bytes([wire.MSG_DEBUG])):     # RFC 4253 section 11: skipped by the judge, and to be skipped by the tool
                    rest = rest[got[0]:]
                    got = wire.parse_frame(rest)
                k = wire.parse_kexinit(got[1])
                exp = {'kex': k['kex'], 'key': k['key'], 'enc': k['enc_s2c'], 'mac': k['mac_s2c']}
                exp = {c: [x.decode('utf-8', 'replace') for x in v] for c, v in exp.items()}
    isjson = any(o in ('-j', '-jj') for o in case['opts'])
    if isjson:
        return
    tr = report.TextReport(rec['stdout'], verbose='-v' in case['opts'])
    if verdict == 'well' and case.get('paced') and rec['status'] == 1:
        # the bytes were well-formed but paced so slowly that the tool gave up on the peer: that is a stall, answered as a stall
        # has to be - status 1 and no algorithm report
        if any(tr.names(cat) for cat in ('kex', 'key', 'enc', 'mac')):
            out.append(viol('C09 %s: status 1 with an algorithm report' % arch, rec['stdout'][-800:]))
    elif verdict == 'well':
        if rec['status'] not in (0, 2, 3):
            last = [ln for ln in report.strip_ansi(rec['stdout']).strip().split('\n') if ln.strip()][-1:] or ['']
            out.append(viol('C09 well-formed first handshake but status %s: %s' % (rec['status'], last[0][:80]), 'arch=%s faults=%r\nstdout:\n%s' % (arch, case['faults'], rec['stdout'][-1500:])))
        else:
            for cat, want in exp.items():
                if tr.names(cat) != want:
                    out.append(viol('C09 well-formed first handshake but incomplete report cat=%s (%s)' % (cat, fk),
                                    'faults=%r\nwant %r\ngot  %r' % (case['faults'], want, tr.names(cat))))
                    break
    elif verdict == 'ill':
        if rec['status'] != 1:
            out.append(viol('C09 malformed handshake (%s) but status %s (%s)' % (why, rec['status'], fk),
                            'faults=%r\nstdout:\n%s' % (case['faults'], rec['stdout'][-1500:])))
        elif tr.has_alg_report():
            out.append(viol('C09 malformed handshake (%s) but an algorithm report is shown (%s)' % (why, fk),
                            'faults=%r\nstdout:\n%s' % (case['faults'], rec['stdout'][-1500:])))


def listen_cases(seed, tier):
    """The accept side of a client audit (-c): the tool listens on both families and waits for one connection.  Faults of that phase
    belong to nobody's byte stream: the client never comes, comes late, the port cannot be bound for one family or for both."""
    n = 0
    for T in (1, 2, 3):
        for fam in (4, 6):
            # nobody connects: with an explicit time-out the tool gives up after it (status 1, no report)
            yield {'arch': 'client', 'listen': {'kind': 'absent'}, 'family': fam, 'faults': [], 'opts': ['-n'], 'timeout': T, 'net': {'rtt_us': 200, 'seg': {'mode': 'msg'}}, 'pseed': 1}
            # the client comes shortly before the time-out elapses: audited as usual
            yield {'arch': 'client', 'listen': {'kind': 'late', 'at_us': int(0.6 * T * 1_000_000)}, 'family': fam, 'faults': [], 'opts': ['-n'], 'timeout': T,
                   'net': {'rtt_us': 200, 'seg': {'mode': 'msg'}}, 'pseed': 1}
            for bf in (['0.0.0.0'], ['::'], ['0.0.0.0', '::']):
                yield {'arch': 'client', 'listen': {'kind': 'bind_fail', 'hosts': bf}, 'family': fam, 'faults': [], 'opts': ['-n'], 'timeout': T,
                       'net': {'rtt_us': 200, 'seg': {'mode': 'msg'}}, 'pseed': 1}
            n += 1


def run_listen(case, ctx):
    out = []
    L = case['listen']
    T = case['timeout']
    plan = base_plan('client', case['opts'], T, case['net'], None, case.get('pseed', 1))
    cl = plan['world']['clients'][0]
    if case['family'] == 6:
        cl['to'], cl['from'] = ['::', 2222], ['2001:db8::7', 50022]
    if L['kind'] == 'absent':
        cl['at_us'] = 10 ** 12
    elif L['kind'] == 'late':
        cl['at_us'] = L['at_us']
    elif L['kind'] == 'bind_fail':
        plan['world']['bind_fail'] = L['hosts']
        cl['retries'] = 3
    plan['knobs'] = dict(plan.get('knobs') or {}, max_vtime_s=600, max_events=400000)
    rec = ctx.run(plan, hang_is_outcome=True)
    if rec.get('harness_error'):
        return {'violations': [], 'keys': []}
    tr = report.TextReport(rec['stdout'], verbose=False)
    what = '%s%s, client over IPv%d' % (L['kind'], (' ' + '+'.join(L['hosts'])) if L.get('hosts') else '', case['family'])
    served = L['kind'] == 'late' or (L['kind'] == 'bind_fail' and ('0.0.0.0' if case['family'] == 4 else '::') not in L['hosts'])
    if rec['outcome'] != 'exit':
        out.append(viol('C09 client audit (%s): did not terminate (%s)' % (what.split(',')[0], rec['outcome']), 'timeout=%s\n%s' % (T, rec['stdout'][-600:])))
    elif rec['status'] not in (0, 1, 2, 3):
        out.append(viol('C09 client audit (%s): status %s' % (what.split(',')[0], rec['status']), '%s\n%s\n%s' % (what, rec['stdout'][-800:], rec['stderr'][-400:])))
    elif served:
        # a client did reach a listening socket and sent a well-formed handshake: complete report
        if rec['status'] not in (0, 2, 3) or not tr.names('kex'):
            out.append(viol('C09 client audit (%s): a client that connected with a well-formed handshake got no report (status %s)' % (what.split(',')[0], rec['status']),
                            '%s\n%s\n%s' % (what, rec['stdout'][-800:], rec['stderr'][-400:])))
    else:
        if rec['status'] != 1 or tr.has_alg_report():
            out.append(viol('C09 client audit (%s): no client was served, yet status %s / report shown' % (what.split(',')[0], rec['status']), '%s\n%s' % (what, rec['stdout'][-600:])))
        # while at least one family listens the tool waits for the time-out; with no listener at all it has nothing to wait for
        bound = 1_000_000 if (L['kind'] == 'bind_fail' and len(L['hosts']) == 2) else (T + 2) * 1_000_000
        if rec['vtime_us'] > bound + 1_000_000:
            out.append(viol('C09 client audit (%s): gave up later than the time-out allows' % what.split(',')[0], 'vtime=%.1fs timeout=%ss' % (rec['vtime_us'] / 1e6, T)))
    return {'violations': out, 'keys': [h('listen', L['kind'], tuple(L.get('hosts', [])), case['family'], T)], 'counters': {'listen_' + L['kind']: 1, 'status_%s' % rec['status']: 1}}


def run_case(case, ctx):
    if case.get('listen'):
        return run_listen(case, ctx)
    out = []
    faults = copy.deepcopy(case['faults'])
    for f in faults:
        if f['kind'] == 'delay' and 'frac' in f:
            f['us'] = int(f['frac'] * (case['timeout'] or 5) * 1_000_000)   # always inside one read timeout (two faults: < 2 x 0.45)
    plan = base_plan(case['arch'], case['opts'], case['timeout'], case['net'], faults, case.get('pseed', 1), case.get('knobs'))
    plan['knobs'] = dict(plan.get('knobs') or {})
    plan['knobs'].setdefault('max_vtime_s', 1200 if not case.get('paced') else 6000)
    plan['knobs'].setdefault('max_events', 400000)
    rec = ctx.run(plan, real_timeout=20.0 if case.get('stress') else 60.0, hang_is_outcome=True)
    if rec.get('harness_error'):
        return {'violations': [], 'keys': []}
    if rec['outcome'] == 'REAL_TIME_EXCEEDED':
        # typical invocations take 0.05 s of real time; this one computed for the whole allowance without making one simulated call
        return {'violations': [viol('C09 %s: the tool did not return within %.0f s of real processor time (computing, no call into the simulated world)' % (case['arch'], rec['real_timeout_s']),
                                    'faults=%r' % [dict(f, hex=f['hex'][:80]) if 'hex' in f else f for f in case['faults']])], 'keys': []}
    judge(case, rec, out)
    fired = rec.get('faults_fired', {})
    keys = []
    for f in case['faults']:
        if fired.get(f['kind']):
            keys.append(fault_key(case['arch'], f))
    return {'violations': out, 'keys': keys, 'counters': {'arch_' + case['arch']: 1, 'status_%s' % rec['status']: 1}}


def shrink(case):
    if len(case['faults']) > 1:
        for i in range(len(case['faults'])):
            c = copy.deepcopy(case)
            del c['faults'][i]
            yield c
    if case['net'] != {'rtt_us': 200, 'seg': {'mode': 'msg'}}:
        c = copy.deepcopy(case)
        c['net'] = {'rtt_us': 200, 'seg': {'mode': 'msg'}}
        yield c
    if case.get('knobs'):
        c = copy.deepcopy(case)
        c['knobs'] = {}
        yield c
    if case['opts'] != ['-n']:
        c = copy.deepcopy(case)
        c['opts'] = ['-n']
        yield c
    if case['timeout'] != 1:
        c = copy.deepcopy(case)
        c['timeout'] = 1
        yield c
    for i, f in enumerate(case['faults']):
        if f.get('off', 0) > 0 and f['kind'].startswith('truncate'):
            for no in (0, f['off'] // 2):
                if no != f['off']:
                    c = copy.deepcopy(case)
                    c['faults'][i]['off'] = no
                    yield c
