"""Helpers shared by the property campaigns."""
import copy
import hashlib
import json

from .. import gen, report, wire

CATS = ('kex', 'key', 'enc', 'mac')


def h(*parts):
    return hashlib.sha1(repr(parts).encode('utf-8', 'backslashreplace')).hexdigest()[:16]


def viol(sig, detail):
    return {'sig': sig, 'detail': detail}


def advertised(profile, cat):
    """Names the peer put on the wire for cat, as they are documented to be shown (empty names dropped)."""
    out = []
    for n in profile.get(cat, []):
        s = wire.shown(n)
        if s.strip() == '':
            continue
        out.append(s)
    return out


def harness(rec):
    return rec.get('harness_error')


def text_argv(opts, target):
    return list(opts) + [target]


def is_json(opts):
    return any(o in ('-j', '-jj', '--json') for o in opts)


def is_verbose(opts):
    return '-v' in opts or '--verbose' in opts


def compact_case(case, maxlen=1200):
    s = json.dumps(case, sort_keys=True, default=str)
    if len(s) <= maxlen:
        return case
    return {'_truncated_json': s[:maxlen] + '...', 'id': case.get('id')}


def handshake_intact(rec, server_idx=0, conn=0):
    """Did the peer deliver a complete, unfaulted banner + KEXINIT (or SSH-1 public key) on the given connection?"""
    try:
        c = rec['servers'][server_idx]['conns'][conn]
    except (KeyError, IndexError):
        return False
    tags = {t['tag']: t for t in c['tx']}
    if 'banner' not in tags or not tags['banner']['intact']:
        return False
    for t in c['tx']:
        if t['tag'] in ('pre', 'text') and not t['intact']:
            return False
    if 'kexinit' in tags:
        return tags['kexinit']['intact']
    if 'ssh1_pubkey' in tags:
        return tags['ssh1_pubkey']['intact']
    return False


def drop_one(lst):
    for i in range(len(lst)):
        yield lst[:i] + lst[i + 1:]


def shrink_profile_lists(case, path=('profile',)):
    """Yield copies of case with one name removed from one list (or a list halved)."""
    def get(c):
        for p in path:
            c = c[p]
        return c
    prof = get(case)
    for cat in CATS + ('comp', 'pre'):
        lst = prof.get(cat)
        if not lst:
            continue
        if len(lst) > 3:
            for half in (lst[:len(lst) // 2], lst[len(lst) // 2:]):
                c = copy.deepcopy(case)
                get(c)[cat] = half
                yield c
        for smaller in drop_one(lst):
            c = copy.deepcopy(case)
            get(c)[cat] = smaller
            yield c


SIMPLE_NET = {'rtt_us': 200, 'seg': {'mode': 'msg'}}


# ---------------------------------------------------------------------------------------- database-as-data helpers
def since_text(versions):
    """Independent rendering of the 'available since' text from the database's version field."""
    if not versions or versions[0] is None:
        return None
    parts = []
    for v in versions[0].split(','):
        cli = v.endswith('C')
        if cli:
            v = v[:-1]
        if v.startswith('d'):
            prod, ver = 'Dropbear SSH', v[1:]
        elif v.startswith('l1'):
            continue
        else:
            prod, ver = 'OpenSSH', v
        if not ver:
            continue
        parts.append('%s %s%s' % (prod, ver, ' (client only)' if cli else ''))
    if not parts:
        return None
    return 'available since ' + ', '.join(parts)


def reference(cat, dbname):
    desc = gen.db()['ssh2'][cat][dbname]
    notes = []
    for idx, lv in ((1, 'fail'), (2, 'warn'), (3, 'info')):
        if len(desc) > idx:
            notes += [(lv, t) for t in desc[idx] if t is not None]
    st = since_text(desc[0])
    if st:
        notes.append(('info', st))
    return sorted(notes)




TERRAPIN = 'vulnerable to the Terrapin attack (CVE-2023-48795), allowing message prefix truncation'


def extra_levels(cat, name, notes):
    """Levels (fail/warn) of the notes a report shows for (cat, name) beyond the static database entry and the Terrapin
    note: these are the notes that stem from *measured* attributes (key / CA / modulus sizes), whatever their wording."""
    key = name
    if cat == 'kex' and name.startswith('gss-'):
        key = name[:name.rindex('-')] + '-*'
    if key not in gen.db()['ssh2'][cat]:
        return None
    base = list(reference(cat, key))
    extra = []
    for lv, t in notes:
        if (lv, t) in base:
            base.remove((lv, t))
        elif t == TERRAPIN:
            continue
        elif lv in ('fail', 'warn'):
            extra.append(lv)
    return sorted(set(extra))
