"""Shared machinery for the multi-target properties C07 / C08: worlds with several servers, one `-T file` invocation,
fresh single-target reference invocations, block matching."""
import copy
import json
import re

from .. import gen, report

SEP = '-' * 80
PROGRESS = re.compile(r'^(Scanning \d+ targets with |Running against: |Starting audit of |Connecting to |Listening for client connection)')


def target_spelling(t):
    """How target t is written in the targets file."""
    if 'line' in t:
        return t['line']
    host, port = t['host'], t['port']
    if port == 22 and not t.get('explicit_port'):
        return host
    return '%s:%d' % (host, port)


def label(t):
    """The label the tool prints for target t."""
    return t['host'] if t['port'] == 22 else '%s:%d' % (t['host'], t['port'])


def world_for(targets, only=None):
    hosts, servers, addrs = {}, [], {}
    for i, t in enumerate(targets):
        if only is not None and i != only:
            continue
        kind = t.get('kind', 'server')
        if kind == 'unresolvable':
            hosts[t['host']] = {'gaierror': True}
            if t.get('dns_delay_us'):
                hosts[t['host']]['delay_us'] = t['dns_delay_us']      # the resolver takes this long to say so
            continue
        if kind == 'badline':
            continue
        hosts[t['host']] = {'answers': [[4, t['ip']]]}
        if t.get('dns_delay_us'):
            hosts[t['host']]['delay_us'] = t['dns_delay_us']
        if kind == 'refused':
            continue
        if kind == 'blackhole':
            addrs[t['ip']] = 'blackhole'
            continue
        srv = {'ip': t['ip'], 'port': t['port'], 'profile': t['profile'], 'name': t['host']}
        if t.get('faults'):
            srv['faults'] = t['faults']
        servers.append(srv)
    return {'hosts': hosts, 'servers': servers, 'addrs': addrs}


def multi_plan(case, opts, threads, scratch, sched=None, seed=None):
    targets = case['targets']
    lines = [target_spelling(t) for t in targets]
    extra = case.get('extra_lines', {})
    body = ''
    for i, ln in enumerate(lines):
        for e in extra.get(str(i), []):
            body += e + '\n'
        body += ln + '\n'
    for e in extra.get('end', []):
        body += e + '\n'
    argv = list(opts) + ([] if case.get('rate_test') else ['--skip-rate-test']) + ['-t', str(case.get('timeout', 2)), '-T', '{DIR}/targets.txt', '--threads', str(threads)]
    plan = {'seed': seed if seed is not None else case.get('pseed', 1), 'argv': argv, 'dir': scratch, 'files': {'targets.txt': body},
            'world': world_for(targets), 'net': case.get('net', {'rtt_us': 300}), 'sched': sched or case.get('sched'), 'knobs': case.get('knobs', {})}
    if case.get('policy_text') is not None:
        plan['files']['policy.txt'] = case['policy_text']
    return plan


def single_plan(case, idx, opts, scratch, seed=None):
    t = case['targets'][idx]
    argv = list(opts) + ([] if case.get('rate_test') else ['--skip-rate-test']) + ['-t', str(case.get('timeout', 2)), target_spelling(t)]
    plan = {'seed': seed if seed is not None else case.get('pseed', 1), 'argv': argv, 'dir': scratch, 'files': {},
            'world': world_for(case['targets'], only=idx), 'net': case.get('net', {'rtt_us': 300}), 'knobs': case.get('knobs', {})}
    if case.get('policy_text') is not None:
        plan['files']['policy.txt'] = case['policy_text']
    return plan


def split_text_blocks(stdout):
    plain = report.strip_ansi(stdout)
    parts = re.split(r'(?m)^-{80}$', plain)
    return [p.strip('\n') for p in parts]


def norm_block(text):
    """Drop the '(gen) target:' line that only multi-target mode prints, and surrounding blank lines."""
    lines = [ln.rstrip() for ln in report.strip_ansi(text).split('\n')]
    lines = [ln for ln in lines if not ln.startswith('(gen) target: ')]
    # verbose progress chatter is written at once by whichever thread emits it, outside any block
    lines = [ln for ln in lines if not PROGRESS.match(ln)]
    while lines and not lines[0].strip():
        lines.pop(0)
    while lines and not lines[-1].strip():
        lines.pop()
    return '\n'.join(lines)


def block_target(block, targets, policy_mode=False):
    """Index of the target a text block belongs to, or None."""
    # verbose progress lines of *other* targets may be interleaved anywhere: they never identify a block
    block = '\n'.join(ln for ln in block.split('\n') if not PROGRESS.match(ln))
    m = re.search(r'(?m)^\(gen\) target: (\S+)', block)
    if m is None and policy_mode:
        m = re.search(r'(?m)^Host:\s+(\S+)', block)
    if m is not None:
        lab = m.group(1)
        for i, t in enumerate(targets):
            if label(t) == lab:
                return i
        return None
    cands = [i for i, t in enumerate(targets) if t.get('host') and re.search(r'(?<![\w.-])%s(?![\w-])' % re.escape(t['host']), block)]
    if len(cands) == 1:
        return cands[0]
    return None


def json_target(doc, targets):
    if not isinstance(doc, dict):
        return None
    lab = doc.get('target')
    if lab is None and 'host' in doc:
        lab = '%s:%s' % (doc['host'], doc.get('port'))
    for i, t in enumerate(targets):
        if lab == '%s:%d' % (t['host'], t['port']):
            return i
    return None
