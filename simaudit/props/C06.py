"""C06 - policy verdicts follow the documented matching rules."""
import copy
import json

from .. import gen, report, wire, refmodels
from .common import viol, h, compact_case, CATS

ID = 'C06'
CLAIM = ('harness-written policy files (every field present or absent, three flags, optional host keys, size maps on boundary values, strict-kex markers) x simulated peers over a '
         '3-4 name universe per category plus seeded large instances; `-P file target` in text and JSON; verdict and mismatched fields are compared with a reference evaluator written '
         'from the property statement (sizes are the ones the probe protocol really measured at the simulated peer); metamorphic follow-ups: a passing peer with a shrunk list (subset '
         'mode) or grown keys (larger-keys mode) must still pass. Workload only: no schedule or fault of its own')
TRUST = ('trusted base: refmodels.policy_eval (from the statement), keyword mapping of error field names, the probe-derived sizes taken from the simulated server log; the CA-size error '
         'next to a CA-type error is left open (statement silent); optional host keys are removed for the exact-mode comparison only (the statement read literally: under subset mode the list must be drawn from the host-key list)')
TECHNIQUE = 'deterministic simulation as the end-to-end observation point; reference-model oracle; metamorphic pairs'
LEVEL = 'exploration'
BUDGET = {'quick': 200, 'thorough': 2400}
NCASES = {'quick': 2100, 'thorough': 14000}
RULE = ('cases: (policy, peer) pairs, 15% of the server audits requested through a one-line targets file; non-trivial: a verdict was reached; distinct by (flag triple, field, relation between policy and peer for that field). Cell coverage is reported.')
ASSUMPTIONS = ['fault-free: equality with the reference is asserted only when every probe completed']

U = {'kex': ['curve25519-sha256', 'diffie-hellman-group-exchange-sha256', 'diffie-hellman-group16-sha512', 'kex-strict-s-v00@openssh.com'],
     'key': ['rsa-sha2-512', 'rsa-sha2-256', 'ssh-ed25519', 'ssh-rsa-cert-v01@openssh.com'],
     'enc': ['aes128-ctr', 'aes256-gcm@openssh.com', 'chacha20-poly1305@openssh.com'],
     'mac': ['hmac-sha2-256-etm@openssh.com', 'hmac-sha2-512', 'umac-128-etm@openssh.com']}
GEX = 'diffie-hellman-group-exchange-sha256'


def sublist(rng, universe, lo=1, hi=3):
    k = rng.randrange(lo, min(hi, len(universe)) + 1)
    lst = rng.sample(universe, k)
    return lst


def cases(seed, tier):
    for i in range(NCASES[tier]):
        rng = gen.case_rng(seed, ID, i)
        big = rng.random() < 0.1
        peer = {}
        for cat in CATS:
            if big:
                pool = [n for n in gen.db_names(cat) if not n.endswith('-*')]
                peer[cat] = rng.sample(pool, rng.randrange(3, 9))
            else:
                peer[cat] = sublist(rng, U[cat])
        rsa_bits = rng.choice([2048, 3072, 4096])
        ca_type = rng.choice(['ssh-rsa', 'ssh-ed25519'])
        ca_bits = rng.choice([2048, 3072, 4096])
        gex_size = rng.choice([1536, 2048, 3072, 4096])
        prof = {'banner': rng.choice(['SSH-2.0-Sim_1.0', 'SSH-2.0-OpenSSH_9.6']) if gex_size != 2048 else 'SSH-2.0-Sim_1.0',
                'kex': peer['kex'], 'key': peer['key'], 'enc': peer['enc'], 'mac': peer['mac'], 'comp': rng.choice([['none'], ['none', 'zlib@openssh.com']]),
                'keys': {'ssh-rsa': {'bits': rsa_bits}, 'ssh-ed25519': {}, 'ssh-rsa-cert-v01@openssh.com': {'bits': rsa_bits, 'ca_type': ca_type, 'ca_bits': ca_bits if ca_type == 'ssh-rsa' else 0}},
                'gex': {'sizes': [gex_size], 'style': 'strict'}}
        # policy: start from the peer (so many cases pass) and perturb
        pol = {'name': 'sim', 'version': 1, 'subset': rng.choice([None, False, True, True]), 'larger': rng.choice([None, False, True, True])}
        mode = rng.choice(['same', 'same', 'perturb', 'perturb', 'random'])
        for cat, key in (('key', 'host_keys'), ('kex', 'kex'), ('enc', 'ciphers'), ('mac', 'macs')):
            if rng.random() < 0.15:
                continue
            univ = U[cat] if not big else peer[cat] + U[cat]
            if mode == 'same':
                lst = list(peer[cat])
            elif mode == 'random':
                lst = sublist(rng, univ)
            else:
                lst = list(peer[cat])
                op = rng.choice(['same', 'same', 'add', 'drop', 'swap', 'superset'])
                if op == 'add':
                    lst.insert(rng.randrange(len(lst) + 1), rng.choice(univ + ['extra-%s@example.com' % cat]))
                elif op == 'drop' and len(lst) > 1:
                    del lst[rng.randrange(len(lst))]
                elif op == 'swap' and len(lst) > 1:
                    a, b = rng.sample(range(len(lst)), 2)
                    lst[a], lst[b] = lst[b], lst[a]
                elif op == 'superset':
                    lst = lst + [x for x in univ if x not in lst]
                    rng.shuffle(lst)
            pol[key] = lst
        if rng.random() < 0.35 and 'host_keys' in pol:
            pol['optional_host_keys'] = sublist(rng, U['key'] + ['sk-ssh-ed25519@openssh.com'], 1, 3)
            if rng.random() < 0.5:
                pol['host_keys'] = [x for x in pol['host_keys'] if x not in pol['optional_host_keys']] or pol['host_keys']
        if rng.random() < 0.6:
            hs = {}
            for typ in rng.sample(['rsa-sha2-512', 'rsa-sha2-256', 'ssh-rsa', 'ssh-ed25519', 'ssh-rsa-cert-v01@openssh.com'], rng.randrange(1, 4)):
                if typ == 'ssh-ed25519':
                    hs[typ] = {'hostkey_size': rng.choice([256, 256, 255, 384])}
                else:
                    hs[typ] = {'hostkey_size': rsa_bits + rng.choice([0, 0, -1024, 1024])}
                    if typ.endswith('cert-v01@openssh.com'):
                        hs[typ]['ca_key_type'] = rng.choice([ca_type, ca_type, 'ssh-rsa', 'ssh-ed25519'])
                        base = ca_bits if ca_type == 'ssh-rsa' else 256
                        hs[typ]['ca_key_size'] = base + rng.choice([0, 0, -1024 if base > 1024 else 0, 1024])
            pol['hostkey_sizes'] = hs
        if rng.random() < 0.5:
            pol['dh_modulus_sizes'] = {GEX: gex_size + rng.choice([0, 0, -512, 1024])}
            rd = gen.case_rng(seed, ID, i, 'dhmap')
            if rd.random() < 0.4:
                # a map with several entries, some for group-exchange algorithms this peer does not offer (they sort before and after the
                # one it offers): an entry without a measurement is skipped, the others are still compared
                extra = rd.sample(['diffie-hellman-group-exchange-sha1', 'diffie-hellman-group-exchange-sha224@ssh.com', 'diffie-hellman-group-exchange-sha512@ssh.com',
                                   'a-group-exchange@example.com', 'z-group-exchange@example.com'], rd.randrange(1, 4))
                m = dict(pol['dh_modulus_sizes'])
                for e in extra:
                    if e not in prof['kex']:
                        m[e] = rd.choice([1024, 2048, 4096])
                items = list(m.items())
                rd.shuffle(items)
                pol['dh_modulus_sizes'] = dict(items)
        if rng.random() < 0.2:
            pol['banner'] = prof['banner'] if rng.random() < 0.6 else 'SSH-2.0-Other_1.0'
        if rng.random() < 0.2:
            pol['compressions'] = prof['comp'] if rng.random() < 0.6 else ['none']
        c = {'profile': prof, 'policy': pol, 'opts': rng.choice([['-n'], ['-j'], ['-jj'], ['-n', '-b'], ['-n', '-v']]), 'pseed': rng.getrandbits(32)}
        re_ = gen.case_rng(seed, ID, i, 'empty')
        if re_.random() < 0.05 and not c.get('role'):
            # an AEAD-only peer: its MAC name-lists are empty; a policy that lists no MAC either is satisfied by it
            prof['mac'] = []
            if pol.get('macs') is not None and re_.random() < 0.7:
                pol['macs'] = []
        rdup = gen.case_rng(seed, ID, i, 'repeat')
        if rdup.random() < 0.06 and not c.get('role'):
            # a peer that lists one name twice: in exact mode the list is compared as sent, in subset mode it is still drawn from the policy's list
            cat = rdup.choice(['enc', 'mac', 'kex'])
            if prof[cat]:
                prof[cat] = list(prof[cat])
                prof[cat].insert(rdup.randrange(len(prof[cat]) + 1), rdup.choice([x for x in prof[cat] if x not in refmodels.STRICT_MARKERS] or prof[cat]))
        rd = gen.case_rng(seed, ID, i, 'degenerate')
        if pol.get('hostkey_sizes') and rd.random() < 0.08:
            # a degenerate peer: an RSA host key (and CA key) with a modulus of a few bits only; whatever size the tool derives
            # for it, it is not the one the policy lists
            prof['keys']['ssh-rsa']['bits'] = rd.choice([1, 7, 8, 64])
            prof['keys']['ssh-rsa-cert-v01@openssh.com']['bits'] = prof['keys']['ssh-rsa']['bits']
            if prof['keys']['ssh-rsa-cert-v01@openssh.com']['ca_type'] == 'ssh-rsa' and rd.random() < 0.5:
                prof['keys']['ssh-rsa-cert-v01@openssh.com']['ca_bits'] = rd.choice([1, 7, 8, 64])
        if gen.case_rng(seed, ID, i, 'via').random() < 0.15:
            # the same audit requested through a one-line targets file: the rules do not depend on how the target was named
            c['via_file'] = True
        if rng.random() < 0.15:
            # client audit with a client policy: what is judged is what the report shows (the server-to-client direction)
            c['role'] = 'client'
            c.pop('via_file', None)
            pol['client'] = True
            pol.pop('hostkey_sizes', None)
            pol.pop('dh_modulus_sizes', None)
            pol.pop('banner', None)
            prof['banner'] = 'SSH-2.0-OpenSSH_9.6'
            prof.pop('keys', None)
            if rng.random() < 0.7:
                prof['enc_s2c'] = list(prof['enc'])
                prof['enc'] = sublist(rng, U['enc'])            # client-to-server list: not what the report shows
            if rng.random() < 0.7:
                prof['mac_s2c'] = list(prof['mac'])
                prof['mac'] = sublist(rng, U['mac'])
        yield c


def sample(case):
    return compact_case(case)


def measured(prof, rec):
    """What the probe protocol measured, from the server-side log (fault-free)."""
    from ..peers import blob_type_for_alg
    srv = rec['servers'][0]
    hk = {}
    for s in srv['hostkeys_sent']:
        bt = blob_type_for_alg(s['alg'])
        spec = dict(prof['keys'].get(s['alg']) or prof['keys'].get(bt) or {})
        spec.setdefault('type', bt)
        facts = wire.blob_facts(wire.key_blob(spec, tag=srv['name']))
        ent = {'size': facts['bits'], 'ca_type': facts['ca_type'], 'ca_size': facts['ca_bits']}
        if s['alg'] in gen.RSA_FAMILY:
            for a in gen.RSA_FAMILY:
                hk.setdefault(a, ent)
        else:
            hk.setdefault(s['alg'], ent)
    dh = {}
    for r in srv['gex_requests']:
        if (r['min'], r['n'], r['max']) == (1024, 2048, 8192) or r['answer'] is None:
            continue
        dh[r['alg']] = min(dh.get(r['alg'], r['answer']), r['answer'])
    return hk, dh


def verdict(case, rec):
    """-> (passed, set of canonical failing fields, raw errors) or None"""
    isjson = any(o in ('-j', '-jj') for o in case['opts'])
    if isjson:
        doc, err = report.parse_json(rec['stdout'])
        if case.get('via_file') and isinstance(doc, list) and len(doc) == 1:
            doc = doc[0]
        if not isinstance(doc, dict) or 'passed' not in doc:
            return None
        errs = doc.get('errors', [])
        return bool(doc['passed']), {refmodels.canon_field(e['mismatched_field']) for e in errs}, errs
    plain = report.strip_ansi(rec['stdout'])
    if 'Result:' not in plain:
        return None
    passed = 'Passed' in plain.split('Result:', 1)[1].split('\n', 1)[0]
    fields = set()
    for ln in plain.split('\n'):
        ln = ln.strip()
        if ln.startswith('* ') and ln.endswith('did not match.'):
            fields.add(refmodels.canon_field(ln[2:-len(' did not match.')]))
    return passed, fields, None


def run_policy(case, ctx, prof):
    if case.get('role') == 'client':
        plan = gen.client_plan(case['pseed'], list(case['opts']) + ['-c', '-p', '2222', '-t', '4', '-P', '{DIR}/policy.txt'], prof, port=2222)
        plan['dir'] = ctx.scratch()
        plan['files'] = {'policy.txt': refmodels.policy_text(case['policy'])}
        return ctx.run(plan)
    argv = list(case['opts']) + ['--skip-rate-test', '-t', '2', '-P', '{DIR}/policy.txt'] + (['-T', '{DIR}/targets.txt'] if case.get('via_file') else ['srv.example:2222'])
    plan = gen.server_plan(case['pseed'], argv, prof, port=2222)
    plan['dir'] = ctx.scratch()
    plan['files'] = {'policy.txt': refmodels.policy_text(case['policy'])}
    if case.get('via_file'):
        plan['files']['targets.txt'] = 'srv.example:2222\n'
    return ctx.run(plan)


def run_case(case, ctx):
    out, keys = [], []
    prof, pol = case['profile'], case['policy']
    rec = run_policy(case, ctx, prof)
    if rec.get('harness_error'):
        return {'violations': [], 'keys': []}
    v = verdict(case, rec)
    if v is None:
        out.append(viol('C06 no verdict printed (status %s)' % rec['status'], '%s\n%s\npolicy:\n%s' % (rec['stdout'][-700:], rec['stderr'][-300:], refmodels.policy_text(pol))))
        return {'violations': out, 'keys': []}
    passed, fields, errs = v
    client = case.get('role') == 'client'
    hk, dh = ({}, {}) if client else measured(prof, rec)
    shown_enc = prof.get('enc_s2c', prof['enc']) if client else prof['enc']
    shown_mac = prof.get('mac_s2c', prof['mac']) if client else prof['mac']
    peer = {'banner': prof['banner'], 'comp': prof.get('comp_s2c', prof['comp']) if client else prof['comp'], 'key': prof['key'], 'kex': prof['kex'], 'enc': shown_enc, 'mac': shown_mac,
            'host_keys': hk, 'dh': dh}
    want_fail, open_ = refmodels.policy_eval(pol, peer)
    flags = 'subset=%s larger=%s' % (bool(pol.get('subset')), bool(pol.get('larger')))
    if passed != (len(fields) == 0):
        out.append(viol('C06 verdict and error list disagree (passed=%s, %d errors)' % (passed, len(fields)), rec['stdout'][-600:]))
    if (rec['status'] == 0) != passed or rec['status'] not in (0, 3):
        out.append(viol('C06 exit status %s does not match the verdict %s' % (rec['status'], 'passed' if passed else 'failed'), rec['stdout'][-300:]))
    missing = sorted(f for f in want_fail if f not in fields and f not in open_)
    extra = sorted(f for f in fields if f not in want_fail and f not in open_)
    ctx_txt = '%s\npolicy:\n%s\npeer lists: key=%r kex=%r enc=%r mac=%r\nmeasured host keys=%r dh=%r\ntool fields=%r reference=%r open=%r' % (
        flags, refmodels.policy_text(pol), prof['key'], prof['kex'], prof['enc'], prof['mac'], hk, dh, sorted(fields), sorted(want_fail), sorted(open_))
    for f in missing:
        out.append(viol('C06 mismatch not reported: %s (%s)' % (f.split(':')[0], flags), ctx_txt))
    for f in extra:
        out.append(viol('C06 reported a mismatch the rules do not give: %s (%s)' % (f.split(':')[0], flags), ctx_txt))
    # expected / actual values of list errors (JSON form carries them as lists)
    if errs:
        for e in errs:
            cf = refmodels.canon_field(e['mismatched_field'])
            src = {'key': ('host_keys', prof['key']), 'kex': ('kex', prof['kex']), 'enc': ('ciphers', peer['enc']), 'mac': ('macs', peer['mac'])}.get(cf)
            if src and cf == 'mac' and (not peer['mac'] or not pol.get('macs')):
                continue        # an empty name-list is carried as [''] or []: not judged
            if src:
                if e.get('actual') != src[1] or e.get('expected_required') != pol.get(src[0]):
                    out.append(viol('C06 error does not carry the expected/actual values of its field (%s)' % cf, json.dumps(e)[:500]))
    # metamorphic follow-ups
    if passed and not want_fail and not open_ and not client:
        if pol.get('subset'):
            prof2 = copy.deepcopy(prof)
            rng = gen.case_rng(case['pseed'], 'meta')
            cat = rng.choice(CATS)
            drop = [x for x in prof2[cat] if x not in refmodels.STRICT_MARKERS]
            if len(prof2[cat]) > 1 and drop:
                prof2[cat].remove(rng.choice(drop))
                r2 = run_policy(case, ctx, prof2)
                v2 = None if r2.get('harness_error') else verdict(case, r2)
                if v2 is not None and not v2[0]:
                    out.append(viol('C06 shrinking a passing peer\'s list under subset mode turned the pass into a fail (%s)' % cat, 'dropped from %r -> %r\n%s' % (prof[cat], prof2[cat], r2['stdout'][-500:])))
        if pol.get('larger'):
            prof2 = copy.deepcopy(prof)
            prof2['keys']['ssh-rsa']['bits'] += 1024
            prof2['keys']['ssh-rsa-cert-v01@openssh.com']['bits'] += 1024
            if prof2['keys']['ssh-rsa-cert-v01@openssh.com']['ca_type'] == 'ssh-rsa':
                prof2['keys']['ssh-rsa-cert-v01@openssh.com']['ca_bits'] += 1024
            bigger = [s for s in (2048, 3072, 4096) if s > prof['gex']['sizes'][0]]
            if bigger and not (bigger[0] == 2048 and 'OpenSSH' in prof['banner']):
                prof2['gex']['sizes'] = [bigger[0]]
            r2 = run_policy(case, ctx, prof2)
            v2 = None if r2.get('harness_error') else verdict(case, r2)
            if v2 is not None and not v2[0]:
                out.append(viol('C06 growing a passing peer\'s keys under larger-keys mode turned the pass into a fail', '%s' % r2['stdout'][-600:]))
    rel = tuple(sorted(f.split(':')[0] for f in want_fail))
    keys.append(h(bool(pol.get('subset')), bool(pol.get('larger')), pol.get('optional_host_keys') is not None, rel, tuple(sorted(k for k in pol if pol[k] is not None))))
    return {'violations': out, 'keys': keys, 'counters': {'passed' if passed else 'failed': 1}}


def shrink(case):
    pol = case['policy']
    for k in list(pol):
        if k in ('name', 'version') or pol[k] is None:
            continue
        c = copy.deepcopy(case)
        c['policy'][k] = None
        yield c
    for cat in CATS:
        if len(case['profile'][cat]) > 1:
            for i in range(len(case['profile'][cat])):
                c = copy.deepcopy(case)
                del c['profile'][cat][i]
                yield c
    if case['opts'] != ['-n']:
        c = copy.deepcopy(case)
        c['opts'] = ['-n']
        yield c
