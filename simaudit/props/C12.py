"""C12 - group-exchange modulus size is measured and rated correctly."""
import copy
import json
import re
import itertools

from .. import gen, report, wire
from .common import viol, h, compact_case, extra_levels

ID = 'C12'
CLAIM = ('the multi-connection GEX probe protocol runs against a stateful simulated server whose moduli policy is drawn from (thorough: enumerates) every subset of '
         '{512,...,8192} x {strict, round-up, OpenSSH-fallback} x {sha1, sha256, both} x OpenSSH / non-OpenSSH banner; the reported size and its notes are compared with a '
         'reference computed from the requests the server logged and the sizes it handed out; a faulty campaign (refuse / stall / garbage / reset in the probe phase) asserts '
         'only that a reported size is one the server really handed out')
TRUST = ('trusted base: the moduli-selection models (OpenSSH style written from memory of kexgexs.c/dh.c and pinned by the recorded 5.6p1 / 8.0p1 results), the request log of the '
         'simulated server, moduli are odd integers of exact bit length (the tool never tests primality); small DH exponents handed out at the randomness seam')
TECHNIQUE = 'deterministic simulation of the probe protocol against an enumerated family of stateful servers; reference model over the server-side request log; probe-phase fault injection'
LEVEL = 'exploration'
BUDGET = {'quick': 200, 'thorough': 3000}
RULE = ('clean cases: (moduli subset, style, algorithm set, banner class) - quick samples 500, thorough enumerates all 9216; faulty cases: the same with 1-2 faults on probe '
        'connections. non-trivial: >= 1 GEX request was answered; distinct by (moduli subset, style, algorithm set, banner class, request-log shape).')
ASSUMPTIONS = ['monotone policies only (the quantifier)', 'OpenSSH banner + first-pass 2048: the reported size is the follow-up probe\'s answer, hence no size when that probe is refused, stalled or garbled',
               'requests (1024,2048,8192) are the host-key probe using a GEX algorithm and are not part of the GEX test sequence']

SIZES = [512, 768, 1024, 1536, 2048, 3072, 4096, 6144, 8192]
STYLES = ['strict', 'roundup', 'openssh']
ALGSETS = [['diffie-hellman-group-exchange-sha1'], ['diffie-hellman-group-exchange-sha256'], ['diffie-hellman-group-exchange-sha256', 'diffie-hellman-group-exchange-sha1']]
BANNERS = {'openssh': ['SSH-2.0-OpenSSH_7.4', 'SSH-2.0-OpenSSH_9.6', 'SSH-2.0-OpenSSH_5.6', 'SSH-2.0-OpenSSH_for_Windows_8.1', 'SSH-2.0-OpenSSH_8.9p1 Ubuntu-3ubuntu0.6', 'SSH-2.0-OpenSSH'], 'other': ['SSH-2.0-Sim_1.0', 'SSH-2.0-libssh_0.9.6', 'SSH-2.0-dropbear_2020.81']}
SEQ = [(512, 1024, 1536)] + [(b, b, b) for b in (512, 768, 1024, 1536, 2048, 3072, 4096)] + [(2048, 3072, 4096)]
SMALL = 'using small %d-bit modulus'
W2048 = '2048-bit modulus only provides 112-bits of symmetric strength'
NCASES = {'quick': 1500, 'thorough': 3000}
NFAULTY = {'quick': 600, 'thorough': 4000}


def mk(subset, style, algs, bclass, rng, hostkey_via_gex=False):
    kex = list(algs)
    if not hostkey_via_gex:
        kex = ['curve25519-sha256'] + kex
    if rng.random() < 0.3:
        kex.append('diffie-hellman-group14-sha256')
    gex = {'sizes': list(subset), 'style': style}
    if style == 'openssh':
        gex['grp_min'] = rng.choice([1024, 2048])
    return {'banner': rng.choice(BANNERS[bclass]), 'kex': kex, 'key': ['ssh-ed25519'], 'enc': ['aes128-ctr'], 'mac': ['hmac-sha2-256'], 'comp': ['none'],
            'keys': {'ssh-ed25519': {}}, 'gex': gex}


def cases(seed, tier):
    combos = []
    for r in range(1, len(SIZES) + 1):
        for sub in itertools.combinations(SIZES, r):
            for style in STYLES:
                for ai in range(3):
                    for bclass in ('openssh', 'other'):
                        combos.append((sub, style, ai, bclass))
    # plus the empty subset for the fallback style (OpenSSH with no usable moduli file)
    for ai in range(3):
        for bclass in ('openssh', 'other'):
            combos.append(((), 'openssh', ai, bclass))
    rng0 = gen.case_rng(seed, ID, 'pick')
    if tier == 'thorough':
        chosen = combos
    else:
        chosen = rng0.sample(combos, NCASES[tier])
    for i, (sub, style, ai, bclass) in enumerate(chosen):
        rng = gen.case_rng(seed, ID, i)
        prof = mk(sub, style, ALGSETS[ai], bclass, rng, hostkey_via_gex=rng.random() < 0.1)
        r2 = gen.case_rng(seed, ID, i, 'per-alg')
        if len(ALGSETS[ai]) == 2 and r2.random() < 0.3:
            # the two group-exchange algorithms are served from different moduli sets: each is measured and rated on its own
            prof['gex']['sizes_by_alg'] = {r2.choice(ALGSETS[ai]): sorted(r2.sample(SIZES, r2.randrange(1, 4)))}
        r4 = gen.case_rng(seed, ID, i, 'quiet')
        if r4.random() < 0.1:
            # the server sends SSH_MSG_IGNORE / SSH_MSG_DEBUG packets ahead of its group and reply messages (allowed at any time): same sizes
            prof['quiet_packets'] = b''.join(wire.frame(bytes([wire.MSG_IGNORE]) + wire.sstr('x' * r4.choice([0, 2, 90]))) if r4.random() < 0.6 else
                                             wire.frame(bytes([wire.MSG_DEBUG, 0]) + wire.sstr('dbg') + wire.sstr('')) for _ in range(r4.choice([1, 2, 3, 6]))).hex()      # up to a hundred such packets over the probe sequence
        r3 = gen.case_rng(seed, ID, i, 'after')
        after = None
        if r3.random() < 0.12:
            # audited as the second target of one invocation, after a server whose group exchange hands out another size:
            # what is reported for this server is what this server handed out
            after = {'sizes': [r3.choice([s_ for s_ in (1024, 2048, 4096) if s_ not in sub] or [1024])], 'style': 'roundup'}
        yield {'kind': 'clean', 'after': after, 'profile': prof, 'bclass': bclass,
               'opts': rng.choice([['-n'], ['-n'], ['-j'], ['-n', '-v'], ['-n', '-b']]), 'net': gen.rand_net(rng) if rng.random() < 0.5 else {'rtt_us': 100},
               'knobs': gen.rand_knobs(rng), 'pseed': rng.getrandbits(32)}
    # directed: moduli whose size is not a multiple of 8 (nor of anything else): the neighbours of the two thresholds, and sizes whose encoding is
    # as long as that of the next byte-aligned size (2047 / 2048); the statement's thresholds are in bits
    k = 0
    for sub in ((2047,), (2049,), (3071,), (3073,), (1023, 2055), (2041, 4095), (1535, 3065)):
        for style in ('roundup', 'openssh'):
            for bclass in ('openssh', 'other'):
                rng = gen.case_rng(seed, ID, 'odd-bits', k)
                k += 1
                yield {'kind': 'clean', 'after': None, 'profile': mk(sub, style, ALGSETS[k % 3], bclass, rng), 'bclass': bclass,
                       'opts': rng.choice([['-n'], ['-j']]), 'net': {'rtt_us': 100}, 'knobs': {}, 'pseed': rng.getrandbits(32)}
    # directed: servers for which no probe can obtain a modulus (strict selection, everything above 4096), audited after one that hands out a size
    k = 0
    for sub in ((6144,), (8192,), (6144, 8192)):
        for ai in range(3):
            for bclass in ('openssh', 'other'):
                rng = gen.case_rng(seed, ID, 'after-none', k)
                k += 1
                yield {'kind': 'clean', 'after': {'sizes': [rng.choice([1024, 2048, 4096])], 'style': 'roundup'}, 'profile': mk(sub, 'strict', ALGSETS[ai], bclass, rng), 'bclass': bclass,
                       'opts': rng.choice([['-n'], ['-j']]), 'net': {'rtt_us': 100}, 'knobs': {}, 'pseed': rng.getrandbits(32)}
    # directed: every probe that is answered with the smallest modulus has its connection reset right after the (whole) group message,
    # the probes answered with a larger one go through: the smallest modulus handed out is still the smallest
    k = 0
    for sub, conns in (((1024, 2048), (2, 5)), ((768, 2048), (2, 4)), ((1024, 4096), (2, 5)), ((1536, 3072), (2, 6))):
        for ai in (0, 1):
            for kind in ('truncate_reset', 'truncate_close', 'truncate_stall'):
                rng = gen.case_rng(seed, ID, 'after-group', k)
                k += 1
                prof = mk(sub, 'strict', ALGSETS[ai], 'other', rng)
                prof['kex'] = ['curve25519-sha256'] + [x for x in prof['kex'] if x in gen.GEX]
                yield {'kind': 'faulty', 'profile': prof, 'bclass': 'other', 'faults': [{'conn': c, 'msg': 'group', 'kind': kind, 'off': 10 ** 6} for c in conns], 'opts': ['-n'],
                       'net': {'rtt_us': 100}, 'knobs': {'rst_after_close': 1, 'rst_keeps_data': 1}, 'pseed': rng.getrandbits(32), 'timeout': 1}
    for i in range(NFAULTY[tier] // 4):
        # directed: an OpenSSH server whose first pass ends at 2048 through the fallback, and a fault at one of the last probes
        rng = gen.case_rng(seed, ID, 'fd', i)
        sub = rng.choice([(3072, 4096), (6144, 8192), (4096,), (2048, 3072), (3072,)])
        ai = rng.randrange(3)
        prof = mk(sub, 'openssh', ALGSETS[ai], 'openssh', rng)
        prof['gex']['grp_min'] = rng.choice([1024, 2048])
        nalg = len(ALGSETS[ai])
        conn = rng.choice([1 + 9 * nalg, 9 * nalg, 9, 10, 8, 1 + 9 * nalg - rng.randrange(0, 4)])
        kind = rng.choice(['refuse', 'truncate_stall', 'truncate_close', 'garbage', 'close_before'])
        f = {'conn': conn, 'kind': kind}
        if kind != 'refuse':
            f.update({'msg': rng.choice(['group', 'group', 'kexinit', 'banner']), 'off': rng.choice([0, 6]), 'n': 40})
        yield {'kind': 'faulty', 'profile': prof, 'bclass': 'openssh', 'faults': [f], 'opts': ['-n'], 'net': {'rtt_us': 100}, 'knobs': {}, 'pseed': rng.getrandbits(32), 'timeout': 1}
    for i in range(NFAULTY[tier]):
        rng = gen.case_rng(seed, ID, 'f', i)
        sub, style, ai, bclass = rng.choice(combos)
        nf = rng.choice([1, 1, 2, 3])
        faults = []
        for _ in range(nf):
            conn = rng.randrange(1, 14)
            kind = rng.choice(['refuse', 'truncate_stall', 'truncate_close', 'garbage', 'truncate_reset', 'corrupt_len', 'close_before', 'blackhole'])
            msg = rng.choice(['banner', 'kexinit', 'group', 'group', 'reply'])
            if kind in ('refuse', 'blackhole'):
                faults.append({'conn': conn, 'kind': kind})
            elif kind == 'corrupt_len':
                faults.append({'conn': conn, 'msg': 'group', 'kind': 'corrupt', 'off': 6, 'hex': rng.choice(['00000000', '00000001', 'ffffffff', '00000040'])})
            elif kind == 'garbage':
                faults.append({'conn': conn, 'msg': msg, 'kind': 'garbage', 'n': rng.choice([8, 40, 200])})
            elif kind == 'close_before':
                faults.append({'conn': conn, 'msg': msg, 'kind': 'close_before'})
            else:
                # 10**6: the whole message first, then the close / stall / reset
                faults.append({'conn': conn, 'msg': msg, 'kind': kind, 'off': rng.choice([0, 3, 9, 40, 10 ** 6])})
        yield {'kind': 'faulty', 'profile': mk(sub, style, ALGSETS[ai], bclass, rng), 'bclass': bclass, 'faults': faults, 'opts': ['-n'],
               'net': {'rtt_us': 100}, 'knobs': {}, 'pseed': rng.getrandbits(32), 'timeout': 1}


def sample(case):
    return compact_case(case)


def parse_reported(case, rec):
    """alg -> (size or None, notes list) from text or JSON output."""
    out = {}
    algs = [a for a in case['profile']['kex'] if a in gen.GEX]
    if any(o in ('-j', '-jj') for o in case['opts']):
        doc, err = report.parse_json(rec['stdout'])
        if not isinstance(doc, dict):
            return None
        for e in doc.get('kex', []):
            if e['algorithm'] in algs:
                notes = [('fail', t) for t in e['notes'].get('fail', [])] + [('warn', t) for t in e['notes'].get('warn', [])] + [('info', t) for t in e['notes'].get('info', [])]
                out[e['algorithm']] = (e.get('keysize'), notes)
    else:
        tr = report.TextReport(rec['stdout'], verbose='-v' in case['opts'])
        for e in tr.algs['kex']:
            if e['name'] in algs:
                out[e['name']] = (e['size'], e['notes'])
    return out


def run_case(case, ctx):
    out, keys = [], []
    argv = list(case['opts']) + ['--skip-rate-test', '-t', str(case.get('timeout', 3)), 'srv.example:2222']
    plan = gen.server_plan(case['pseed'], argv, case['profile'], port=2222, net=case['net'], knobs=case.get('knobs'), faults=case.get('faults'))
    if case.get('after'):
        from . import multi
        other = copy.deepcopy(case['profile'])
        other['gex'] = dict(case['after'])
        other['banner'] = 'SSH-2.0-Sim_1.0'
        two = [{'kind': 'server', 'host': 'other.example', 'ip': '192.0.2.9', 'port': 2222, 'profile': other},
               {'kind': 'server', 'host': 'srv.example', 'ip': '192.0.2.10', 'port': 2222, 'profile': case['profile']}]
        plan = multi.multi_plan({'targets': two, 'pseed': case['pseed'], 'sched': {'policy': 'run_to_block', 'seed': 0}, 'net': case['net'], 'knobs': case.get('knobs') or {}, 'timeout': 3},
                                list(case['opts']), 1, ctx.scratch())
    rec = ctx.run(plan)
    if rec.get('harness_error'):
        return {'violations': [], 'keys': []}
    if case.get('after'):
        mine = None
        if any(o in ('-j', '-jj') for o in case['opts']):
            doc, err = report.parse_json(rec['stdout'])
            for d_ in doc if isinstance(doc, list) else []:
                if multi.json_target(d_, two) == 1:
                    mine = json.dumps(d_)
        else:
            for b in re.split(r'(?m)^-{80}$', rec['stdout']):
                if multi.block_target(report.strip_ansi(b), two) == 1:
                    mine = b
        if mine is None:
            return {'violations': [viol('C12 no result for the second target', rec['stdout'][-400:])], 'keys': []}
        srv2 = next(s_ for s_ in rec['servers'] if s_['name'] == 'srv.example')
        rec = dict(rec, stdout=mine, servers=[srv2])
    if rec['outcome'] != 'exit' or rec['status'] not in (0, 2, 3):
        out.append(viol('C12 audit did not complete (status %s, %s)' % (rec['status'], rec['outcome']), 'faults=%r\n%s' % (case.get('faults'), rec['stdout'][-800:])))
        return {'violations': out, 'keys': []}
    srv = rec['servers'][0]
    reported = parse_reported(case, rec)
    if reported is None:
        out.append(viol('C12 json output unparsable', rec['stdout'][:400]))
        return {'violations': out, 'keys': []}
    openssh = case['bclass'] == 'openssh'
    clean = case['kind'] == 'clean'
    reqs_all = srv['gex_requests']
    answered_any = False
    for alg in [a for a in case['profile']['kex'] if a in gen.GEX]:
        reqs = [r for r in reqs_all if r['alg'] == alg and (r['min'], r['n'], r['max']) != (1024, 2048, 8192)]
        tuples = [(r['min'], r['n'], r['max']) for r in reqs]
        # the request log must be an in-order sub-sequence of the documented probe sequence, each tuple at most once
        pos = -1
        ok_seq = True
        for t in tuples:
            if t not in SEQ or SEQ.index(t) <= pos:
                ok_seq = False
                break
            pos = SEQ.index(t)
        if not ok_seq:
            out.append(viol('C12 GEX requests are not an instance of the documented probe sequence', 'alg=%s requests=%r' % (alg, tuples)))
        handed = [r['answer'] for r in reqs if r['answer'] is not None and r['delivered']]
        if handed:
            answered_any = True
        size, notes = reported.get(alg, (None, []))
        note_txt = [t for _, t in notes]
        if clean:
            first = [r for r in reqs if (r['min'], r['n'], r['max']) != (2048, 3072, 4096)]
            follow = [r for r in reqs if (r['min'], r['n'], r['max']) == (2048, 3072, 4096)]
            first_handed = [r['answer'] for r in first if r['answer'] is not None]
            exp = min(first_handed) if first_handed else None
            accept = {exp}
            expl = False
            if openssh and exp == 2048:
                if not follow:
                    out.append(viol('C12 OpenSSH server answered 2048 but no follow-up 2048-4096 probe was made', 'alg=%s requests=%r' % (alg, tuples)))
                else:
                    fa = follow[0]['answer']
                    if fa is None:
                        accept = {None}        # the reported size is *defined* as the follow-up's answer: none, so no size
                    else:
                        accept = {fa}
                        expl = fa != 2048
            elif follow:
                out.append(viol('C12 follow-up 2048-4096 probe made although not (OpenSSH and 2048)', 'alg=%s banner=%s requests=%r first-pass min=%r' % (alg, case['profile']['banner'], tuples, exp)))
            if size not in accept:
                out.append(viol('C12 reported modulus size differs from the smallest handed out (%s, %s)' % (case['profile']['gex']['style'], 'openssh' if openssh else 'other'),
                                'alg=%s sizes=%r style=%s\nrequests/answers=%r\nreported=%r expected one of %r' % (
                                    alg, case['profile']['gex']['sizes'], case['profile']['gex']['style'], [(t, r['answer']) for t, r in zip(tuples, reqs)], size, sorted(accept, key=str))))
            elif size is not None and expl != any('GEX fallback mechanism was triggered' in t for t in note_txt) and not any(o in ('-j',) for o in case['opts']):
                out.append(viol('C12 explanatory OpenSSH-fallback note %s' % ('missing' if expl else 'shown without cause'), 'alg=%s size=%r notes=%r' % (alg, size, note_txt)))
        else:
            # under faults a probe may be lost, but what is reported is either nothing or the smallest modulus whose group message
            # reached the tool intact ("no size rather than a wrong one"); for an OpenSSH server whose first pass ends at 2048 it is
            # the answer of the follow-up probe, when that was delivered
            first_ok = [r['answer'] for r in reqs if r['answer'] is not None and r['delivered'] and (r['min'], r['n'], r['max']) != (2048, 3072, 4096)]
            follow_ok = [r['answer'] for r in reqs if r['answer'] is not None and r['delivered'] and (r['min'], r['n'], r['max']) == (2048, 3072, 4096)]
            exp = min(first_ok) if first_ok else None
            accept = {None, exp}
            if openssh and exp == 2048:
                accept = {None} | set(follow_ok)
            # "the smallest modulus the server hands out across the tool's fixed probe sequence": a reported size stands for the
            # whole sequence, so the single-size probes below the smallest modulus learnt so far must all have been made; a fault
            # costs at most the probe on the connection it hits (each fault of a case selects one connection)
            if size is not None:
                learnt, missing = 0, []
                by_tuple = {(r['min'], r['n'], r['max']): r for r in reqs}
                r0 = by_tuple.get(SEQ[0])
                if r0 is not None and r0['answer'] is not None and r0['delivered']:
                    learnt = r0['answer']
                for t in SEQ[1:-1]:
                    if t[0] >= learnt > 0:
                        break
                    r_ = by_tuple.get(t)
                    if r_ is None:
                        missing.append(t[0])
                    elif r_['answer'] is not None and r_['delivered'] and (learnt <= 0 or r_['answer'] < learnt):
                        learnt = r_['answer']
                if len(missing) > len(case['faults']):
                    out.append(viol('C12 faulty probe phase: a size is reported although the probe sequence was cut short',
                                    'alg=%s reported=%r; single-size probes never made: %r (faults: %d)\nrequests/answers/delivered=%r\nfaults=%r' % (
                                        alg, size, missing, len(case['faults']), [((r['min'], r['n'], r['max']), r['answer'], r['delivered']) for r in reqs], case['faults'])))
            if size is not None and size not in handed:
                out.append(viol('C12 faulty probe phase: reported a size the server never handed out', 'alg=%s reported=%r handed=%r faults=%r' % (alg, size, handed, case['faults'])))
            elif size not in accept:
                out.append(viol('C12 faulty probe phase: reported size is not the smallest modulus handed out (%s)' % ('openssh' if openssh else 'other'),
                                'alg=%s reported=%r, smallest handed out %r (follow-up: %r)\nrequests/answers/delivered=%r\nfaults=%r' % (
                                    alg, size, exp, follow_ok, [((r['min'], r['n'], r['max']), r['answer'], r['delivered']) for r in reqs], case['faults'])))
        # notes by threshold (levels of the notes beyond the static database entry; wording is not judged)
        extra = extra_levels('kex', alg, notes) or []
        if size is not None:
            want = ['fail'] if size < 2048 else (['warn'] if size < 3072 else [])
            if extra != want:
                out.append(viol('C12 size notes do not match the thresholds (size %s)' % ('<2048' if size < 2048 else ('2048..3071' if size < 3072 else '>=3072')),
                                'alg=%s size=%d notes=%r\nextra note levels %r, expected %r' % (alg, size, notes, extra, want)))
        elif extra:
            out.append(viol('C12 size note without a size', 'alg=%s notes=%r' % (alg, notes)))
    if answered_any:
        shape = tuple((r['alg'][-4:], r['min'], r['n'], r['max'], r['answer']) for r in reqs_all)
        keys.append(h(case['kind'], tuple(case['profile']['gex']['sizes']), case['profile']['gex']['style'], tuple(a for a in case['profile']['kex'] if a in gen.GEX), case['bclass'], shape))
    return {'violations': out, 'keys': keys, 'counters': {'kind_' + case['kind']: 1, 'gex_requests': len(reqs_all)}}


def shrink(case):
    if case.get('faults') and len(case['faults']) > 1:
        for i in range(len(case['faults'])):
            c = copy.deepcopy(case)
            del c['faults'][i]
            yield c
    sizes = case['profile']['gex']['sizes']
    if len(sizes) > 1:
        for i in range(len(sizes)):
            c = copy.deepcopy(case)
            del c['profile']['gex']['sizes'][i]
            yield c
    gx = [a for a in case['profile']['kex'] if a in gen.GEX]
    if len(gx) > 1:
        for a in gx:
            c = copy.deepcopy(case)
            c['profile']['kex'].remove(a)
            yield c
    if case['net'] != {'rtt_us': 100}:
        c = copy.deepcopy(case)
        c['net'] = {'rtt_us': 100}
        yield c
    if case['opts'] != ['-n']:
        c = copy.deepcopy(case)
        c['opts'] = ['-n']
        yield c
