"""C02 - exit status reflects the worst finding; incomplete audits never look clean; policy verdict <-> status."""
import copy

from .. import gen, report, wire
from .common import CATS, viol, h, compact_case, shrink_profile_lists
from . import C09 as c09

ID = 'C02'
CLAIM = ('seeded search over (a) peers with every mix and ordering of failure/warning/clean algorithms x output option sets, status compared with the fold over the '
         '[fail]/[warn] tags of the full-level text rendering of the same peer; (b) handshakes broken at every stage x option sets: status must not be 0/2/3 and no '
         'algorithm list may be shown (text or JSON); (c) policy audits: status 0 iff Passed / "passed": true, 3 iff failed')
TRUST = ('trusted base: simulated peers and fault layer; the reference rendering is the tool\'s own default-option report of the same peer; "(sec) SSH v1 enabled" carries no '
         '[fail] tag and is left unjudged (ambiguous in the statement)')
TECHNIQUE = 'deterministic simulation, differential oracle across option sets, handshake-stage fault injection'
LEVEL = 'exploration'
BUDGET = {'quick': 200, 'thorough': 2000}
NCASES = {'quick': 1500, 'thorough': 9000}
RULE = ('three case kinds. complete: a peer whose lists are built from database names classed fail / warn / clean in seeded order (a fifth of them with a gss-* key exchange and 15% with a name unknown to the database, half of each with nothing else to find), audited with the default options and '
        'with 3 seeded option sets out of subsets of {-b,-v,-n,-l warn,-l fail,-j,-jj,-2,NO_COLOR}. broken: C09 archetypes with a fault placed on the first connection '
        'before the algorithm lists are complete (refuse, black-hole, truncate/stall/reset at an offset, garbage, wrong first message, SSH-1 bad CRC) x option sets. '
        'policy: -P with a custom policy that the peer passes or fails in one field. non-trivial: (a) >= 2 severities present, (b) the fault fired before the lists '
        'completed, (c) a verdict was reached; distinct by (kind, stage/fault, severity multiset order, option set).')
ASSUMPTIONS = ['findings = [fail]/[warn] tags on algorithm lines of the default-option text report', 'exit statuses 0/2/3 are only legitimate for complete audits']

OPTSETS = [['-b'], ['-v'], ['-n'], ['-l', 'warn'], ['-l', 'fail'], ['-j'], ['-jj'], ['-b', '-l', 'fail'], ['-v', '-l', 'warn'], ['-j', '-l', 'fail'], ['-j', '-l', 'warn'],
           ['-n', '-b', '-v'], ['-2'], ['-2', '-j'], ['-v', '-j'], ['-b', '-j'], ['-n', '-l', 'fail', '-v'], ['-jj', '-v', '-b']]


def _classify_db():
    out = {}
    for cat in CATS:
        fails, warns, clean = [], [], []
        for name, desc in gen.db()['ssh2'][cat].items():
            if name.endswith('-*'):
                continue
            if len(desc) > 1 and desc[1]:
                fails.append(name)
            elif len(desc) > 2 and desc[2]:
                warns.append(name)
            else:
                clean.append(name)
        out[cat] = (fails, warns, clean)
    return out


def cases(seed, tier):
    n = NCASES[tier]
    cls = _classify_db()
    for i in range(n):
        rng = gen.case_rng(seed, ID, i)
        r = rng.random()
        if r < 0.55:
            # complete audit, severity mix
            mix = rng.choice(['clean', 'warn', 'fail', 'warn+fail', 'fail-then-warn', 'warn-then-fail', 'all'])
            prof = {'banner': rng.choice(['SSH-2.0-OpenSSH_9.6', 'SSH-2.0-Sim_2.0', 'SSH-2.0-dropbear_2022.83'])}
            for cat in CATS:
                fails, warns, clean = cls[cat]
                lst = []
                if mix == 'clean':
                    lst = rng.sample(clean, min(len(clean), rng.randrange(1, 4))) if clean else []
                else:
                    parts = {'fail': rng.sample(fails, min(len(fails), rng.randrange(1, 3))) if 'fail' in mix or mix == 'all' else [],
                             'warn': rng.sample(warns, min(len(warns), rng.randrange(1, 3))) if 'warn' in mix or mix == 'all' else [],
                             'clean': rng.sample(clean, min(len(clean), rng.randrange(0, 3))) if clean else []}
                    if rng.random() < 0.5 and mix not in ('all',):
                        # confine the severity to one category, others clean
                        if cat != rng.choice(CATS):
                            parts['fail'], parts['warn'] = [], []
                    if mix == 'fail-then-warn':
                        lst = parts['fail'] + parts['clean'] + parts['warn']
                    elif mix == 'warn-then-fail':
                        lst = parts['warn'] + parts['clean'] + parts['fail']
                    else:
                        lst = parts['fail'] + parts['warn'] + parts['clean']
                        rng.shuffle(lst)
                if not lst:
                    lst = [rng.choice(clean or warns or fails)]
                prof[cat] = lst
            # no probe-able host key / kex unless chosen: keep sizes out of the way half of the time
            prof['keys'] = gen.rand_keys(rng, prof['key']) if rng.random() < 0.5 else {}
            if any(g in prof['kex'] for g in gen.GEX):
                prof['gex'] = {'sizes': [rng.choice([1024, 2048, 4096])], 'style': 'roundup'}
            prof['comp'] = ['none']
            r3 = gen.case_rng(seed, ID, i, 'unknown')
            if r3.random() < 0.15:
                # a name the database does not know is a warning-level finding of its own; in half of these it is the only finding
                if r3.random() < 0.5:
                    for cat in CATS:
                        cl = cls[cat][2]
                        prof[cat] = r3.sample(cl, min(len(cl), r3.randrange(1, 3)))
                    prof['kex'] = [k for k in prof['kex'] if k not in gen.PROBE_KEX] or ['sntrup761x25519-sha512@openssh.com']
                    prof['kex'].append('kex-strict-s-v00@openssh.com')
                    prof['keys'] = {}
                    mix = 'unknown-only'
                ucat = r3.choice(CATS)
                prof[ucat].insert(r3.randrange(len(prof[ucat]) + 1), gen.unknown_name(r3, ucat))
            r2 = gen.case_rng(seed, ID, i, 'gss')
            if r2.random() < 0.2:
                # a Kerberos-enabled peer: one gss-* key exchange (rated through the database's wildcard entry); in half of these every
                # other algorithm is clean, so that the gss entry alone decides the status
                if r2.random() < 0.5:
                    for cat in CATS:
                        cl = cls[cat][2]
                        prof[cat] = r2.sample(cl, min(len(cl), r2.randrange(1, 3)))
                    prof['kex'] = [k for k in prof['kex'] if k not in gen.PROBE_KEX] or ['sntrup761x25519-sha512@openssh.com']
                    prof['kex'].append('kex-strict-s-v00@openssh.com')
                    prof['keys'] = {}
                    mix = 'gss-only'
                prof['kex'].insert(r2.randrange(len(prof['kex']) + 1), gen.gss_name(r2, force_chars=r2.random() < 0.5))
            rc = gen.case_rng(seed, ID, i, 'client')
            role = 'server'
            if rc.random() < 0.12:
                # a client audit; in most of them the client's two directions differ in what they would be rated
                role = 'client'
                prof['keys'] = {}
                if rc.random() < 0.7:
                    for cat in rc.choice([['enc'], ['mac'], ['enc', 'mac']]):
                        fails_, warns_, clean_ = cls[cat]
                        pool = rc.choice([fails_, warns_, clean_]) or clean_ or fails_
                        prof[cat + '_s2c'] = rc.sample(pool, min(len(pool), rc.randrange(1, 3)))
            yield {'kind': 'complete', 'mix': mix, 'role': role, 'profile': prof, 'optsets': rng.sample(OPTSETS, 3), 'no_color': rng.random() < 0.2,
                   'net': gen.rand_net(rng), 'pseed': rng.getrandbits(32)}
        elif r < 0.85:
            arch = rng.choice(['ed25519', 'rsa', 'gex_strict', 'ssh1', 'client', 'dh14'])
            tr, nconn, _ = c09.transcript(arch)
            first = [(c, idx, tag, data) for c, idx, tag, data in tr if c == (1 if arch == 'ssh1' else 0) and tag in ('banner', 'kexinit', 'ssh1_pubkey', 'pre')]
            conn, idx, tag, data = rng.choice(first)
            kind = rng.choice(['truncate_close', 'truncate_stall', 'truncate_reset', 'close_before', 'drop', 'garbage', 'wrongtype', 'refuse', 'blackhole', 'badlen', 'badcrc'])
            f = {'conn': conn, 'msg': idx, 'kind': kind}
            if kind.startswith('truncate'):
                f['off'] = rng.randrange(0, max(1, len(data) - 2))
            elif kind == 'garbage':
                f['n'] = rng.choice([3, 16, 100])
            elif kind == 'wrongtype':
                if tag in ('kexinit', 'ssh1_pubkey'):
                    off = [x for x in wire.length_fields(tag, data) if x[2] == 'msg_type'][0][0]
                    f.update({'kind': 'corrupt', 'off': off, 'hex': '%02x' % rng.choice([0, 1, 3, 21, 31, 50])})
                else:
                    f.update({'kind': 'close_before'})
            elif kind == 'badlen':
                if tag in ('kexinit', 'ssh1_pubkey'):
                    f.update({'kind': 'corrupt', 'off': 0, 'hex': rng.choice(['00000000', '00000001', '0000000c', '7fffffff'])})
                else:
                    f.update({'kind': 'drop'})
            elif kind == 'badcrc':
                if tag == 'ssh1_pubkey':
                    f.update({'kind': 'corrupt', 'off': len(data) - 1, 'hex': '%02x' % (data[-1] ^ 1)})
                else:
                    f.update({'kind': 'truncate_close', 'off': 3})
            elif kind in ('refuse', 'blackhole'):
                f = {'conn': 0, 'kind': kind}
                if arch == 'client':
                    f = {'conn': 0, 'msg': idx, 'kind': 'close_before'}
            c = {'kind': 'broken', 'arch': arch, 'faults': [f], 'tag': tag, 'opts': rng.choice(OPTSETS + [[]]), 'timeout': rng.choice([1, 2]),
                 'net': {'rtt_us': rng.choice([100, 2000]), 'seg': {'mode': rng.choice(['msg', 'mss']), 'mss': 7, 'banner_atomic': True}}, 'pseed': rng.getrandbits(32)}
            # an audit requested through a targets file is still an audit: the same target as the only line of a -T file (the
            # multi-target code path folds the status and wraps the error differently)
            if arch != 'client' and gen.case_rng(seed, ID, i, 'via_file').random() < 0.3:
                c['via_file'] = True
            yield c
        else:
            prof = gen.archetype(rng.choice(['modern', 'hardened', 'old']))
            drift = rng.choice([None, None, 'kex', 'key', 'enc', 'mac'])
            pol = {cat: list(prof[cat]) for cat in CATS}
            if drift:
                if rng.random() < 0.5 and len(pol[drift]) > 1:
                    pol[drift] = pol[drift][1:]
                else:
                    pol[drift] = pol[drift] + ['extra-name@example.com']
            text = 'name = "sim"\nversion = 1\nhost keys = %s\nkey exchanges = %s\nciphers = %s\nmacs = %s\n' % (
                ', '.join(pol['key']), ', '.join(pol['kex']), ', '.join(pol['enc']), ', '.join(pol['mac']))
            yield {'kind': 'policy', 'profile': prof, 'policy_text': text, 'expect_pass': drift is None, 'opts': rng.choice([['-n'], ['-j'], ['-jj'], ['-b'], ['-v'], []]),
                   'net': gen.rand_net(rng), 'pseed': rng.getrandbits(32)}
    yield from absent_client_cases(seed, tier)


def absent_client_cases(seed, tier):
    """A client audit (-c) with an explicit time-out to which no client ever connects: an audit that obtained no lists at all."""
    for j in range(12 if tier == 'quick' else 60):
        rng = gen.case_rng(seed, ID, 'absent', j)
        yield {'kind': 'absent_client', 'opts': rng.choice(OPTSETS + [[]]), 'timeout': rng.choice([1, 2, 3]), 'pseed': rng.getrandbits(32)}


def sample(case):
    return compact_case(case)


def _fold(tr):
    lv = tr.levels()
    return 3 if 'fail' in lv else (2 if 'warn' in lv else 0)


def run_case(case, ctx):
    out, keys = [], []
    kind = case['kind']
    if kind == 'complete':
        prof = case['profile']
        env = {'NO_COLOR': '1'} if case.get('no_color') else {}

        def plan(opts, net):
            if case.get('role') == 'client':
                p = gen.client_plan(case['pseed'], list(opts) + ['-c', '-p', '2222', '-t', '4'], prof, port=2222, net=net)
            else:
                p = gen.server_plan(case['pseed'], list(opts) + ['--skip-rate-test', 'srv.example:2222'], prof, port=2222, net=net)
            p['env'] = env
            return p
        ref = ctx.run(plan([], {'rtt_us': 200}))
        if ref.get('harness_error'):
            return {'violations': [], 'keys': []}
        tr = report.TextReport(ref['stdout'])
        if ref['status'] not in (0, 2, 3) or not tr.has_alg_report():
            out.append(viol('C02 complete: reference audit of a well-behaved peer failed (status %s)' % ref['status'], ref['stdout'][-800:]))
            return {'violations': out, 'keys': []}
        want = _fold(tr)
        if ref['status'] != want:
            out.append(viol('C02 complete: status %s but the report folds to %s (default options)' % (ref['status'], want), 'mix=%s\n%s' % (case['mix'], ref['stdout'][-1500:])))
        for opts in case['optsets']:
            r = ctx.run(plan(opts, case['net']))
            if r.get('harness_error'):
                return {'violations': [], 'keys': []}
            if r['status'] != want:
                out.append(viol('C02 complete: status %s under %s but the full report folds to %s' % (r['status'], ' '.join(opts), want),
                                'mix=%s lists=%r\nstdout tail:\n%s' % (case['mix'], {c: prof[c] for c in CATS}, r['stdout'][-700:])))
            if any(o in ('-j', '-jj') for o in opts):
                # the JSON document is a report too: its own failure / warning notes (those of names the database does not know included) fold to the same status
                doc, _err = report.parse_json(r['stdout'])
                if isinstance(doc, dict):
                    lv, unknown = set(), False
                    for c in CATS:
                        for e in doc.get(c, []):
                            key = e['algorithm']
                            if c == 'kex' and key.startswith('gss-') and '-' in key[4:]:
                                key = key[:key.rindex('-')] + '-*'
                            if key not in gen.db()['ssh2'][c]:
                                unknown = True
                            lv.update(k for k in ('fail', 'warn') if e['notes'].get(k))
                    jf = 3 if 'fail' in lv else (2 if ('warn' in lv or unknown) else 0)
                    if r['status'] != jf:
                        out.append(viol('C02 complete: status %s under %s but the JSON report itself folds to %s' % (r['status'], ' '.join(opts), jf),
                                        'role=%s lists=%r' % (case.get('role', 'server'), {c: prof.get(c) for c in list(CATS) + ['enc_s2c', 'mac_s2c']})))
        if len(tr.levels() & {'fail', 'warn', 'info'}) >= 2:
            sev = tuple(tuple(sorted({lv for lv, _ in e['notes']})) for c in CATS for e in tr.algs[c])
            keys.append(h('complete', sev, case['optsets']))
    elif kind == 'absent_client':
        plan = c09.base_plan('client', case['opts'], case['timeout'], {'rtt_us': 200}, None, case['pseed'])
        plan['world']['clients'][0]['at_us'] = 10 ** 12
        plan['knobs'] = dict(plan.get('knobs') or {}, max_vtime_s=600)
        r = ctx.run(plan)
        if r.get('harness_error'):
            return {'violations': [], 'keys': []}
        if r['outcome'] != 'exit':
            out.append(viol('C02 client audit nobody connected to: run did not terminate (%s)' % r['outcome'], 'opts=%r timeout=%s' % (case['opts'], case['timeout'])))
        elif r['status'] in (0, 2, 3):
            out.append(viol('C02 client audit nobody connected to: status %s' % r['status'], 'opts=%r timeout=%s\n%s' % (case['opts'], case['timeout'], r['stdout'][-500:])))
        elif report.TextReport(r['stdout'], verbose='-v' in case['opts']).has_alg_report() and not any(o in ('-j', '-jj') for o in case['opts']):
            out.append(viol('C02 client audit nobody connected to: an algorithm report is shown', r['stdout'][-500:]))
        keys.append(h('absent_client', case['opts'], case['timeout']))
    elif kind == 'broken':
        plan = c09.base_plan(case['arch'], case['opts'], case['timeout'], case['net'], case['faults'], case['pseed'])
        if case.get('via_file'):
            plan['argv'] = [a for a in plan['argv'] if a != 'srv.example:2222'] + ['-T', '{DIR}/targets.txt']
            plan['dir'] = ctx.scratch()
            plan['files'] = {'targets.txt': 'srv.example:2222\n'}
        r = ctx.run(plan)
        if r.get('harness_error'):
            return {'violations': [], 'keys': []}
        peer = r['clients'][0] if case['arch'] == 'client' else r['servers'][0]
        cidx = 1 if case['arch'] == 'ssh1' else 0
        conns = peer['conns']
        intact = False
        if len(conns) > cidx:
            tags = {t['tag']: t for t in conns[cidx]['tx']}
            need = 'ssh1_pubkey' if case['arch'] == 'ssh1' else 'kexinit'
            intact = need in tags and all(t['intact'] for t in conns[cidx]['tx'] if t['tag'] in ('pre', 'banner', need))
        if r['outcome'] != 'exit':
            out.append(viol('C02 broken: run did not terminate (%s)' % r['outcome'], repr(case['faults'])))
        elif not intact:
            f = case['faults'][0]
            desc = '%s@%s' % (f['kind'], case['tag'])
            isjson = any(o in ('-j', '-jj') for o in case['opts'])
            if r['status'] in (0, 2, 3):
                out.append(viol('C02 broken: handshake incomplete (%s) but status %s' % (desc, r['status']), 'arch=%s opts=%r faults=%r\n%s' % (case['arch'], case['opts'], case['faults'], r['stdout'][-800:])))
            if isjson:
                txt = r['stdout']
                doc = None
                # the JSON document, if any, is the prefix up to the matching brace
                try:
                    import json
                    doc, _end = json.JSONDecoder().raw_decode(txt.lstrip())
                except ValueError:
                    doc = None
                if isinstance(doc, list) and len(doc) == 1 and case.get('via_file'):
                    doc = doc[0]
                if isinstance(doc, dict):
                    shown = {c: doc.get(c) for c in ('kex', 'key', 'enc', 'mac', 'aut') if doc.get(c)}
                    if shown:
                        out.append(viol('C02 broken: JSON shows algorithm lists (%s) although none were obtained' % ','.join(sorted(shown)),
                                        'arch=%s opts=%r fault=%s\n%s' % (case['arch'], case['opts'], desc, json.dumps(shown)[:400])))
            else:
                tr = report.TextReport(r['stdout'], verbose='-v' in case['opts'])
                if tr.has_alg_report():
                    out.append(viol('C02 broken: text shows an algorithm report although none was obtained (%s)' % desc, r['stdout'][-800:]))
            if r.get('faults_fired'):
                keys.append(h('broken', case['arch'], case['tag'], f['kind'], f.get('off', 0) // 16, case['opts'], bool(case.get('via_file'))))
    else:
        argv = list(case['opts']) + ['--skip-rate-test', '-P', '{DIR}/policy.txt', 'srv.example:2222']
        plan = gen.server_plan(case['pseed'], argv, case['profile'], port=2222, net=case['net'])
        plan['dir'] = ctx.scratch()
        plan['files'] = {'policy.txt': case['policy_text']}
        r = ctx.run(plan)
        if r.get('harness_error'):
            return {'violations': [], 'keys': []}
        isjson = any(o in ('-j', '-jj') for o in case['opts'])
        passed = None
        if isjson:
            doc, err = report.parse_json(r['stdout'])
            if isinstance(doc, dict) and 'passed' in doc:
                passed = bool(doc['passed'])
        else:
            plain = report.strip_ansi(r['stdout'])
            if 'Passed' in plain and 'Result:' in plain:
                passed = True
            elif 'Failed!' in plain:
                passed = False
        if passed is None:
            out.append(viol('C02 policy: no verdict printed (status %s)' % r['status'], r['stdout'][-800:] + r['stderr'][-300:]))
        else:
            want = 0 if passed else 3
            if r['status'] != want:
                out.append(viol('C02 policy: verdict %s but status %s' % ('passed' if passed else 'failed', r['status']), r['stdout'][-600:]))
            if passed != case['expect_pass']:
                out.append(viol('C02 policy: verdict %s but the peer %s the policy' % ('passed' if passed else 'failed', 'matches' if case['expect_pass'] else 'differs from'),
                                'opts=%r\n%s' % (case['opts'], r['stdout'][-900:])))
            keys.append(h('policy', passed, case['opts'], case['profile']['banner']))
    return {'violations': out, 'keys': keys, 'counters': {'kind_' + kind: 1}}


def shrink(case):
    if case['kind'] == 'complete':
        yield from shrink_profile_lists(case)
        if len(case['optsets']) > 1:
            for i in range(len(case['optsets'])):
                c = copy.deepcopy(case)
                del c['optsets'][i]
                yield c
    elif case['kind'] == 'broken':
        if case['opts']:
            c = copy.deepcopy(case)
            c['opts'] = []
            yield c
        f = case['faults'][0]
        if f.get('off'):
            c = copy.deepcopy(case)
            c['faults'][0]['off'] = 0
            yield c
