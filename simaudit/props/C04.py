"""C04 - Terrapin (CVE-2023-48795) exposure is flagged exactly per the published rule."""
import copy

from .. import gen, report, wire, refmodels
from .common import viol, h, compact_case

ID = 'C04'
CLAIM = ('coverage-directed sampling of the 48 cells role x marker{own role, other role, none} x ChaCha x CBC x ETM, each instantiated with seeded database names of the right shape, '
         'with @openssh.org / @ssh.com / rijndael-cbc@lysator.liu.se spellings, with unknown names of the same shape and with harmless neighbours; server role and client role '
         '(listen/accept); text and JSON; the set of names carrying the warning, the advisory note and the "+" recommendations are compared with a reference boolean rule. '
         'Workload only: the property has no schedule or fault of its own; the sim-native side condition is that the report is invariant under the delivery schedule')
TRUST = ('trusted base: the reference rule in simaudit.refmodels written from the property statement; simulated peers; for unknown names of CBC/ETM/ChaCha shape both "carries the warning" '
         'and "does not" are accepted (the statement is ambiguous there), but they count as present for the cross-category rule')
TECHNIQUE = 'deterministic simulation as the end-to-end observation point; reference-model oracle; cell coverage measured'
LEVEL = 'exploration'
BUDGET = {'quick': 200, 'thorough': 2000}
NCASES = {'quick': 960, 'thorough': 9600}
RULE = ('cases: cell index = case index mod 48 so every cell is instantiated equally often; names drawn per case. non-trivial: every case whose report was reached; distinct by '
        '(role, marker, chacha, cbc, etm) cell x hash of the instantiated names. evidence lists cells hit.')
ASSUMPTIONS = ['c2s and s2c lists equal', 'client role is audited through the listen/accept path with a simulated client']

NOTE = refmodels.TERRAPIN_NOTE


def pools():
    enc = gen.db_names('enc')
    mac = gen.db_names('mac')
    return {'chacha': [n for n in enc if refmodels.is_chacha(n)], 'cbc': [n for n in enc if refmodels.is_cbc(n)],
            'plain_enc': [n for n in enc if not refmodels.is_chacha(n) and not refmodels.is_cbc(n)],
            'etm': [n for n in mac if refmodels.is_etm(n)], 'plain_mac': [n for n in mac if not refmodels.is_etm(n)]}


def cases(seed, tier):
    pl = pools()
    for i in range(NCASES[tier]):
        rng = gen.case_rng(seed, ID, i)
        cell = i % 48
        role = ['server', 'client'][cell % 2]
        marker = ['own', 'other', 'none'][(cell // 2) % 3]
        chacha, cbc, etm = bool((cell // 6) & 1), bool((cell // 12) & 1), bool((cell // 24) & 1)
        unknown_ok = rng.random() < 0.3
        enc, mac = [], []
        if chacha:
            enc += rng.sample(pl['chacha'], rng.randrange(1, len(pl['chacha']) + 1))
            if unknown_ok and rng.random() < 0.5:
                enc.append(gen.shaped_unknown(rng, 'chacha'))
        if cbc:
            enc += rng.sample(pl['cbc'], rng.randrange(1, 5))
            if unknown_ok and rng.random() < 0.5:
                enc.append(gen.shaped_unknown(rng, 'cbc'))
        if etm:
            mac += rng.sample(pl['etm'], rng.randrange(1, 4))
            if unknown_ok and rng.random() < 0.5:
                mac.append(gen.shaped_unknown(rng, 'etm'))
        if cbc and not chacha and not etm and unknown_ok and rng.random() < 0.3:
            enc = [gen.shaped_unknown(rng, 'cbc')]
        enc += rng.sample(pl['plain_enc'], rng.randrange(0 if enc else 1, 3))
        mac += rng.sample(pl['plain_mac'], rng.randrange(0 if mac else 1, 3))
        if rng.random() < 0.25:
            # near misses: names that merely resemble the three shapes must not trigger the rule
            mac.append(rng.choice(['hmac-sha2-256-etm@example.com', 'hmac-etm-sha2-256', 'umac-128-etm']))
        if rng.random() < 0.25:
            enc.append(rng.choice(['aes128-cbc@example.com', 'cbc-aes128', 'xchacha20-poly1305@example.com', 'aes-cbc-128']))
        rng.shuffle(enc)
        rng.shuffle(mac)
        own = refmodels.MARKER[role]
        other = refmodels.MARKER['client' if role == 'server' else 'server']
        kex = ['curve25519-sha256', rng.choice(['ext-info-s', 'ext-info-c', 'diffie-hellman-group16-sha512'])]
        if marker == 'own':
            kex.append(own)
        elif marker == 'other':
            kex.append(other)
        if rng.random() < 0.2 and marker == 'own':
            kex.append(other)
        rng.shuffle(kex)
        prof = {'banner': rng.choice(BANNERS[role]), 'kex': kex,
                'key': ['ssh-ed25519'], 'enc': enc, 'mac': mac, 'comp': ['none'], 'keys': {'ssh-ed25519': {}}}
        c2s = None
        r2 = gen.case_rng(seed, ID, i, 'c2s')
        if role == 'client' and r2.random() < 0.3:
            # the client's other direction (client-to-server) differs: the rule is judged on the lists the report shows
            c2s = {'enc': r2.choice([['aes128-ctr'], ['chacha20-poly1305@openssh.com', 'aes256-cbc'], ['aes128-gcm@openssh.com', '3des-cbc']]),
                   'mac': r2.choice([['hmac-sha2-256'], ['hmac-sha2-512-etm@openssh.com'], ['umac-128-etm@openssh.com', 'hmac-sha1']])}
        c = {'cell': cell, 'role': role, 'marker': marker, 'profile': prof, 'c2s': c2s, 'opts': rng.choice([['-n'], ['-n'], ['-j'], ['-n', '-b'], ['-n', '-v']]),
             'nets': [{'rtt_us': 200}, gen.rand_net(rng)] if rng.random() < 0.3 else [{'rtt_us': 200}], 'pseed': rng.getrandbits(32)}
        r3 = gen.case_rng(seed, ID, i, 'after')
        if role == 'server' and r3.random() < 0.2:
            # the same server audited as the second target of one invocation (one worker), after a server that offers the same ciphers
            # and MACs with the marker situation inverted: what the first target earned must not show on, or be missing from, the second
            c['after_inverted'] = True
            c['nets'] = c['nets'][:1]
        yield c


# the rule is about the lists, not about who the peer says it is: every software family the tool treats specially somewhere
BANNERS = {'server': ['SSH-2.0-OpenSSH_9.6', 'SSH-2.0-OpenSSH_8.9p1', 'SSH-2.0-dropbear_2022.83', 'SSH-2.0-Sim_1.0', 'SSH-2.0-libssh_0.10.6', 'SSH-2.0-tinyssh_noversion',
                      'SSH-2.0-Cisco-1.25', 'SSH-2.0-RomSShell_5.40', 'SSH-2.0-OpenSSH_for_Windows_9.5', 'SSH-2.0-AsyncSSH_2.14.2', 'SSH-1.99-OpenSSH_7.4'],
           'client': ['SSH-2.0-OpenSSH_9.6', 'SSH-2.0-OpenSSH_8.9p1', 'SSH-2.0-dropbear_2022.83', 'SSH-2.0-Sim_1.0', 'SSH-2.0-PuTTY_Release_0.80', 'SSH-2.0-PuTTY_Release_0.76',
                      'SSH-2.0-libssh_0.10.6', 'SSH-2.0-libssh2_1.11.0', 'SSH-2.0-WinSCP_release_6.1.2', 'SSH-2.0-paramiko_3.4.0', 'SSH-2.0-Go', 'SSH-2.0-JSCH_0.2.16',
                      'SSH-2.0-AsyncSSH_2.14.2']}


def sample(case):
    return compact_case(case)


def _plan(case, net):
    if case['role'] == 'client':
        prof = case['profile']
        if case.get('c2s'):
            prof = dict(prof, enc_s2c=prof['enc'], mac_s2c=prof['mac'], enc=case['c2s']['enc'], mac=case['c2s']['mac'])
        return gen.client_plan(case['pseed'], list(case['opts']) + ['-c', '-p', '2222', '-t', '4'], prof, port=2222, net=net)
    return gen.server_plan(case['pseed'], list(case['opts']) + ['--skip-rate-test', 'srv.example:2222'], case['profile'], port=2222, net=net)


def _run_second(case, ctx):
    """Audit the case's server as the second of two targets handled by one worker; the first offers the same lists with the marker
    situation inverted (exposed if the case's server is protected, protected if it is exposed).  Returns the record with stdout
    narrowed to the second target's block / JSON element."""
    import json
    import re
    from . import multi as mt
    prof = case['profile']
    other = copy.deepcopy(prof)
    markers = list(refmodels.MARKER.values())
    if any(m in prof['kex'] for m in markers):
        other['kex'] = [k for k in prof['kex'] if k not in markers]
    else:
        other['kex'] = list(prof['kex']) + [refmodels.MARKER['server']]
    two = [{'kind': 'server', 'host': 'other.example', 'ip': '192.0.2.9', 'port': 2222, 'profile': other},
           {'kind': 'server', 'host': 'srv.example', 'ip': '192.0.2.10', 'port': 2222, 'profile': prof}]
    rec = ctx.run(mt.multi_plan({'targets': two, 'pseed': case['pseed'], 'sched': {'policy': 'run_to_block', 'seed': 0}}, list(case['opts']), 1, ctx.scratch()))
    if rec.get('harness_error'):
        return None
    mine = None
    if '-j' in case['opts']:
        doc, err = report.parse_json(rec['stdout'])
        for d in doc if isinstance(doc, list) else []:
            if mt.json_target(d, two) == 1:
                mine = json.dumps(d)
    else:
        for b in re.split(r'(?m)^-{80}$', rec['stdout']):
            if mt.block_target(report.strip_ansi(b), two) == 1:
                mine = b
    if mine is None:
        return dict(rec, no_block=True)
    return dict(rec, stdout=mine)


def run_case(case, ctx):
    out, keys = [], []
    prof = case['profile']
    role = case['role']
    stdouts = []
    rec = None
    for net in case['nets']:
        if case.get('after_inverted'):
            rec = _run_second(case, ctx)
            if rec is None:
                return {'violations': [], 'keys': []}
            if rec.get('no_block'):
                return {'violations': [viol('C04 no result for the second target of the invocation', rec['stdout'][-500:])], 'keys': []}
        else:
            rec = ctx.run(_plan(case, net))
        if rec.get('harness_error'):
            return {'violations': [], 'keys': []}
        stdouts.append(rec['stdout'])
    rec0_out = stdouts[0]
    if len(stdouts) == 2 and stdouts[0] != stdouts[1]:
        out.append(viol('C04 report depends on the delivery schedule', 'nets=%r' % (case['nets'],)))
    if rec['status'] not in (0, 2, 3):
        unknown_shaped = [n for n in prof['enc'] + prof['mac'] if n not in gen.db()['ssh2']['enc'] and n not in gen.db()['ssh2']['mac']]
        site = ''
        if 'Traceback' in rec0_out:
            lines = [ln.strip() for ln in rec0_out.strip().split('\n')]
            site = lines[-1].split(':')[0][:60]
        out.append(viol('C04 audit failed (status %s) %s' % (rec['status'], site), 'role=%s unknown-shaped names=%r\n%s' % (role, unknown_shaped, rec0_out[-900:])))
        return {'violations': out, 'keys': []}
    marker, v_enc, v_mac = refmodels.terrapin(role, prof['kex'], prof['enc'], prof['mac'])
    known_enc, known_mac = gen.db()['ssh2']['enc'], gen.db()['ssh2']['mac']
    isjson = '-j' in case['opts']
    carrying = {'enc': [], 'mac': [], 'kex': [], 'key': []}
    nfo, rec_add = [], []
    if isjson:
        doc, err = report.parse_json(rec0_out)
        if not isinstance(doc, dict):
            out.append(viol('C04 json unparsable', rec0_out[:300]))
            return {'violations': out, 'keys': []}
        for cat in carrying:
            for e in doc.get(cat, []):
                if any(NOTE == t for lv in ('fail', 'warn', 'info') for t in e['notes'].get(lv, [])):
                    carrying[cat].append(e['algorithm'])
        nfo = doc.get('additional_notes', [])
        for level, acts in (doc.get('recommendations') or {}).items():
            for cat, lst in (acts.get('add') or {}).items():
                rec_add += [x['name'] for x in lst]
    else:
        tr = report.TextReport(rec0_out, verbose='-v' in case['opts'])
        for cat in carrying:
            for e in tr.algs[cat]:
                if any(t == NOTE for _, t in e['notes']):
                    carrying[cat].append(e['name'])
        nfo = tr.nfo
        rec_add = [r[1] for r in tr.rec if r[0] == '+']
    must = {'enc': [] if marker else [n for n in v_enc if n in known_enc], 'mac': [] if marker else [n for n in v_mac if n in known_mac]}
    may = {'enc': [] if marker else [n for n in v_enc if n not in known_enc], 'mac': [] if marker else [n for n in v_mac if n not in known_mac]}
    cellname = 'role=%s marker=%s chacha=%d cbc=%d etm=%d' % (role, case['marker'], bool([n for n in prof['enc'] if refmodels.is_chacha(n)]),
                                                             bool([n for n in prof['enc'] if refmodels.is_cbc(n)]), bool([n for n in prof['mac'] if refmodels.is_etm(n)]))
    for cat in ('enc', 'mac'):
        got = carrying[cat]
        missing = [n for n in must[cat] if n not in got]
        extra = [n for n in got if n not in must[cat] and n not in may[cat]]
        if missing:
            out.append(viol('C04 vulnerable %s does not carry the Terrapin warning (%s)' % ('cipher' if cat == 'enc' else 'MAC', cellname), 'missing %r\nenc=%r mac=%r kex=%r' % (missing, prof['enc'], prof['mac'], prof['kex'])))
        if extra:
            out.append(viol('C04 %s carries the Terrapin warning although the rule does not apply (%s)' % ('cipher' if cat == 'enc' else 'MAC', cellname),
                            'extra %r\nenc=%r mac=%r kex=%r' % (extra, prof['enc'], prof['mac'], prof['kex'])))
    for cat in ('kex', 'key'):
        if carrying[cat]:
            out.append(viol('C04 Terrapin warning on a %s algorithm' % cat, repr(carrying[cat])))
    # advisory note: present iff marker and vulnerable set non-empty; names exactly that set
    adv = [n for n in nfo if 'strict key exchange' in n and 'The following algorithms' in n]
    v_all = v_enc + v_mac
    if marker and v_all:
        if len(adv) != 1:
            out.append(viol('C04 advisory note missing although the marker is present and algorithms remain exploitable by unpatched peers (%s)' % cellname, 'notes=%r' % (nfo,)))
        else:
            seg = adv[0].split('The following algorithms would allow an unpatched peer to create vulnerable SSH channels with this target: ', 1)[-1].split('.  If any CBC', 1)[0]
            named = [x.strip() for x in seg.split(', ')]
            if sorted(named) != sorted(v_all):
                out.append(viol('C04 advisory note names a different set of algorithms (%s)' % cellname, 'named %r\nwant  %r' % (named, v_all)))
    elif adv:
        out.append(viol('C04 advisory note shown although %s (%s)' % ('the marker is absent' if not marker else 'no algorithm qualifies', cellname), adv[0][:300]))
    # recommendations: never add a ChaCha / CBC / ETM algorithm that is not advertised
    bad = [n for n in rec_add if refmodels.is_chacha(n) or refmodels.is_cbc(n) or refmodels.is_etm(n)]
    if bad:
        out.append(viol('C04 a ChaCha/CBC/ETM algorithm is recommended for addition', repr(bad)))
    keys.append(h(case['cell'], sorted(prof['enc']), sorted(prof['mac']), sorted(prof['kex'])))
    return {'violations': out, 'keys': keys, 'counters': dict({'cell_%02d' % case['cell']: 1}, **({'second target after a server with the marker situation inverted': 1} if case.get('after_inverted') else {}))}


def shrink(case):
    from .common import shrink_profile_lists
    yield from shrink_profile_lists(case)
    if len(case['nets']) > 1:
        c = copy.deepcopy(case)
        c['nets'] = case['nets'][:1]
        yield c
    if case['opts'] != ['-n']:
        c = copy.deepcopy(case)
        c['opts'] = ['-n']
        yield c
