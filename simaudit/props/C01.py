"""C01 - the report lists exactly the algorithms the peer advertised (text and JSON, server and client role, SSH-1)."""
import copy

from .. import gen, report, wire
from .common import CATS, advertised, viol, h, is_json, is_verbose, shrink_profile_lists, SIMPLE_NET, compact_case

ID = 'C01'
CLAIM = 'seeded search over peers (name-lists, roles, SSH-1 masks) x delivery schedules; the names in the text and JSON reports are compared with what the simulated peer put on the wire, and the report must not depend on the delivery schedule; sampling, not proof'
TRUST = 'trusted base: the TCP/DNS model (simaudit.net), the peer models pinned to 22 recorded real-server results (./check anchors), the report parsers; c2s and s2c lists are generated equal'
TECHNIQUE = 'deterministic simulation, seeded delivery-schedule search, history oracle at the simulated peer'
LEVEL = 'exploration'
BUDGET = {'quick': 150, 'thorough': 1500}
NCASES = {'quick': 700, 'thorough': 12000}
RULE = ('cases: seeded peers (server role, client role via listen/accept, SSH-1 server reached through the 2-connection fallback) whose ten '
        'KEXINIT name-lists / SSH-1 masks are drawn from database names, unknown names, gss-* with base64 suffixes, duplicates, empty and '
        'single-element lists, long names, non-UTF-8 bytes (every tenth server presents real keys of every advertised host-key type during the probes); each peer is audited under two seeded delivery schedules (latency regime x '
        'segmentation x EAGAIN bursts) in a text and a JSON rendering. non-trivial: the algorithm report was reached and some list has >= 2 '
        'names; distinct by hash of (role, renderings, segmentation modes, the lists).')
ASSUMPTIONS = ['c2s and s2c lists are equal in 85% of the cases; where they differ either direction is accepted but the text and JSON forms must show the same one',
               'names contain no whitespace or comma (RFC 4251 section 6); non-UTF-8 bytes are compared after UTF-8 decoding with replacement',
               'banner-phase text lines are segmented at line boundaries or inside lines (seeded)']

TEXT_OPTS = [['-n'], [], ['-b'], ['-v'], ['-n', '-b'], ['-n', '-v'], ['-b', '-v']]
JSON_OPTS = [['-j'], ['-jj']]
SSH1_CIPHERS = wire.SSH1_CIPHERS
SSH1_AUTHS = wire.SSH1_AUTHS


def cases(seed, tier):
    n = NCASES[tier]
    for i in range(n):
        rng = gen.case_rng(seed, ID, i)
        r = rng.random()
        role = 'server' if r < 0.7 else ('client' if r < 0.88 else 'ssh1')
        c = {'role': role, 'text_opts': rng.choice(TEXT_OPTS), 'json_opts': rng.choice(JSON_OPTS),
             'nets': [gen.rand_net(rng), gen.rand_net(rng)], 'knobs': gen.rand_knobs(rng), 'pseed': rng.getrandbits(32)}
        if role == 'ssh1':
            c['profile'] = {'banner': rng.choice(['SSH-1.5-OpenSSH_3.0', 'SSH-1.5-1.2.27', 'SSH-1.99-OpenSSH_3.4']), 'ssh2': False,
                            'ssh1': {'cmask': rng.getrandbits(7) | rng.choice([0, 0, 1 << rng.randrange(7, 32)]),
                                     'amask': rng.getrandbits(7) | rng.choice([0, 0, 1 << rng.randrange(7, 32)]),
                                     'hkey_bits': rng.choice([768, 1024, 2048]), 'skey_bits': rng.choice([512, 768])}}
            if rng.random() < 0.3:
                c['ssh1_only_flag'] = True
        else:
            p = gen.rand_profile(rng, allow_odd=True, with_keys=(role == 'server'))
            if role == 'client':
                p['banner'] = rng.choice(['SSH-2.0-OpenSSH_9.6', 'SSH-2.0-PuTTY_Release_0.79', 'SSH-2.0-libssh_0.9.6', 'SSH-2.0-dropbear_2020.81', 'SSH-2.0-Go'])
                c['family'] = rng.choice([4, 4, 6])
            else:
                p['pre'] = rng.choice([[], [], ['Welcome to sim'], ['line one', 'line two']])
            if rng.random() < 0.15:
                # the two directions of the cipher / MAC lists differ (legal): either direction may be "the" list, but the text
                # and the JSON form must show the same one
                other_key = {'server': '%s_c2s', 'client': '%s_s2c'}[role]
                for cat in ('enc', 'mac'):
                    if rng.random() < 0.7:
                        alt = gen.rand_list(rng, cat, maxlen=5, allow_odd=False) or [rng.choice(gen.db_names(cat))]
                        p[other_key % cat] = alt
                c['asym'] = True
            if i % 97 == 5:
                # one very long list (about 60 KiB of names): the KEXINIT spans dozens of segments and recv() calls
                cat = rng.choice(CATS)
                p[cat] = p[cat] + ['n%04d-' % j + 'x' * rng.choice([40, 180]) + '@example.com' for j in range(rng.choice([60, 300]))]
                for net in c['nets']:
                    # tens of thousands of one-byte segments with a pause after each would take hours of simulated time per connection
                    # (a slow peer, not a misbehaving tool): keep the byte-wise delivery, drop the pauses
                    if net.get('seg', {}).get('mode') in ('byte', 'mss'):
                        net['gap_us'] = 0
            rs = gen.case_rng(seed, ID, i, 'punct')
            if rs.random() < 0.1:
                # RFC 4251 allows every printable US-ASCII character except the comma in a name: characters that mean something to
                # format strings, shells, JSON or terminals must come out as they went in
                special = ['kex-100%%-safe@example.com', 'aes%s-ctr', '100%', '%(name)s-mac', '{0}-cipher', '{name}', 'back\\slash', "quo'te", 'dou"ble', 'semi;colon',
                           '$HOME', '`id`', '<b>', 'a&b', 'per%cent%', '%%', '%d%d', 'tilde~', 'hash#tag', 'bang!', 'star*', '[bracket]', 'pipe|', 'caret^']
                for _ in range(rs.randrange(1, 4)):
                    cat = rs.choice(CATS)
                    p[cat] = list(p[cat])
                    p[cat].insert(rs.randrange(len(p[cat]) + 1), rs.choice(special))
            if role == 'server' and i % 10 == 7:
                # every advertised host-key type is really presented during the probes (measured sizes, notes or no notes at all,
                # are written back into the rating tables before the report is rendered): the lists shown must not depend on it
                r2 = gen.case_rng(seed, ID, i, 'probed')
                fetchable = list(gen.KEY_SPECS) + ['rsa-sha2-256', 'rsa-sha2-512', 'ssh-rsa-cert-v01@openssh.com', 'ssh-ed25519-cert-v01@openssh.com']
                p['key'] = r2.sample(fetchable, r2.randrange(1, 6))
                p['keys'] = gen.rand_keys(r2, p['key'])
                p['kex'] = [r2.choice(['curve25519-sha256', 'diffie-hellman-group14-sha256', 'ecdh-sha2-nistp256', 'diffie-hellman-group-exchange-sha256'])] + [k for k in p['kex'] if k not in gen.PROBE_KEX]
                p['gex'] = {'sizes': [r2.choice([1024, 2048, 3072, 4096])], 'style': r2.choice(['strict', 'roundup'])}
            rq = gen.case_rng(seed, ID, i, 'quiet_packets')
            if rq.random() < 0.12:
                # a peer that sends SSH_MSG_IGNORE / SSH_MSG_DEBUG packets (RFC 4253 section 11: allowed at any time after the identification
                # strings) ahead of its KEXINIT, on every connection: its lists are the ones in the KEXINIT that follows
                pk = []
                for _ in range(rq.randrange(1, 4)):
                    if rq.random() < 0.5:
                        pk.append(wire.frame(bytes([wire.MSG_IGNORE]) + wire.sstr('x' * rq.choice([0, 4, 300]))))
                    else:
                        pk.append(wire.frame(bytes([wire.MSG_DEBUG, rq.choice([0, 1])]) + wire.sstr('m' * rq.choice([0, 12, 200])) + wire.sstr(rq.choice(['', 'en']))))
                c['quiet_packets'] = b''.join(pk).hex()
            c['profile'] = p
        yield c


def sample(case):
    return compact_case(case)


def _plan(case, opts, net, seed):
    role = case['role']
    prof = case['profile']
    if role == 'client':
        argv = list(opts) + ['-c', '-p', '2222', '-t', '4']
        return gen.client_plan(seed, argv, prof, port=2222, net=net, knobs=case.get('knobs'), family=case.get('family', 4),
                               faults=[{'conn': '*', 'msg': 'kexinit', 'kind': 'insert_before', 'hex': case['quiet_packets']}] if case.get('quiet_packets') else None)
    argv = list(opts) + ['--skip-rate-test']
    if case.get('ssh1_only_flag'):
        argv.append('-1')
    argv.append('srv.example:2222')
    return gen.server_plan(seed, argv, prof, port=2222, net=net, knobs=case.get('knobs'),
                           faults=[{'conn': '*', 'msg': 'kexinit', 'kind': 'insert_before', 'hex': case['quiet_packets']}] if case.get('quiet_packets') else None)


def _expected(case):
    prof = case['profile']
    if case['role'] == 'ssh1':
        cm, am = prof['ssh1']['cmask'], prof['ssh1']['amask']
        return {'key': ['ssh-rsa1'], 'enc': [SSH1_CIPHERS[i] for i in range(len(SSH1_CIPHERS)) if cm & (1 << i)],
                'aut': [SSH1_AUTHS[i] for i in range(1, len(SSH1_AUTHS)) if am & (1 << i)]}
    return {cat: advertised(prof, cat) for cat in CATS}


def _alternatives(case, cat):
    """Other direction of the list, when the peer advertises different lists per direction."""
    prof = case['profile']
    out = []
    for k in ('%s_c2s' % cat, '%s_s2c' % cat):
        if k in prof:
            out.append([wire.shown(x) for x in prof[k] if wire.shown(x).strip()])
    return out


def check_text(case, rec, opts, out):
    exp = _expected(case)
    tr = report.TextReport(rec['stdout'], verbose=is_verbose(opts))
    role = case['role']
    for cat, want in exp.items():
        got = tr.names(cat)
        if got != want and got not in _alternatives(case, cat):
            kind = 'missing' if len(got) < len(want) else ('extra' if len(got) > len(want) else 'different')
            out.append(viol('C01 text %s role=%s cat=%s names %s' % ('verbose' if is_verbose(opts) else 'plain', role, cat, kind),
                            'opts=%r\nadvertised: %r\nreported:   %r' % (opts, want, got)))
    for cat in report.ALG_TAGS:
        if cat not in exp and tr.names(cat):
            out.append(viol('C01 text role=%s names under category %s that was not sent' % (role, cat), repr(tr.names(cat))))
    prof = case['profile']
    want_banner = prof['banner']
    if tr.gen.get('banner') != want_banner:
        out.append(viol('C01 text role=%s banner differs' % role, 'sent %r shown %r' % (want_banner, tr.gen.get('banner'))))
    if role != 'ssh1':
        comps = [wire.shown(x) for x in prof.get('comp', ['none']) if wire.shown(x) != 'none']
        want = 'enabled (%s)' % ', '.join(comps) if comps else 'disabled'
        if tr.gen.get('compression') != want:
            out.append(viol('C01 text role=%s compression differs' % role, 'want %r got %r' % (want, tr.gen.get('compression'))))
    return tr


def check_json(case, rec, opts, out):
    exp = _expected(case)
    role = case['role']
    doc, err = report.parse_json(rec['stdout'])
    if doc is None:
        out.append(viol('C01 json role=%s stdout is not one JSON document' % role, '%s\n%s' % (err, rec['stdout'][:600])))
        return None
    if not isinstance(doc, dict):
        out.append(viol('C01 json role=%s document is not an object' % role, rec['stdout'][:300]))
        return None
    for cat, want in exp.items():
        val = doc.get(cat)
        if val is None:
            got = None
        else:
            got = [e['algorithm'] if isinstance(e, dict) else e for e in val]
        if got != want and got not in _alternatives(case, cat):
            kind = 'absent' if got is None else ('missing' if len(got) < len(want) else ('extra' if len(got) > len(want) else 'different'))
            out.append(viol('C01 json role=%s cat=%s names %s' % (role, cat, kind), 'advertised: %r\nreported:   %r' % (want, got)))
    prof = case['profile']
    if (doc.get('banner') or {}).get('raw') != prof['banner']:
        out.append(viol('C01 json role=%s banner differs' % role, 'sent %r shown %r' % (prof['banner'], (doc.get('banner') or {}).get('raw'))))
    if role != 'ssh1':
        want = [wire.shown(x) for x in prof.get('comp', ['none'])]
        if doc.get('compression') != want:
            out.append(viol('C01 json role=%s compression differs' % role, 'want %r got %r' % (want, doc.get('compression'))))
    return doc


def run_case(case, ctx):
    out = []
    keys = []
    counters = {}
    seed = case.get('pseed', case.get('seed', 0))
    stdouts = {}
    shown = {}
    reached = False
    for ni, net in enumerate(case['nets']):
        for kind, opts in (('text', case['text_opts']), ('json', case['json_opts'])):
            if ni == 1 and kind == 'json' and case.get('skip_second_json'):
                continue
            rec = ctx.run(_plan(case, opts, net, seed))
            if rec.get('harness_error'):
                return {'violations': [], 'keys': []}
            if rec['outcome'] != 'exit' or rec['status'] not in (0, 2, 3):
                out.append(viol('C01 role=%s audit of a well-behaved peer did not complete (status=%s outcome=%s)' % (case['role'], rec['status'], rec['outcome']),
                                'opts=%r net=%r\nstdout:\n%s\nstderr:\n%s' % (opts, net, rec['stdout'][-1500:], rec['stderr'][-800:])))
                continue
            if kind == 'text':
                tr = check_text(case, rec, opts, out)
                reached = reached or tr.has_alg_report()
                shown.setdefault('text', {c: tr.names(c) for c in ('enc', 'mac')})
            else:
                doc = check_json(case, rec, opts, out)
                if isinstance(doc, dict):
                    shown.setdefault('json', {c: [e['algorithm'] if isinstance(e, dict) else e for e in (doc.get(c) or [])] for c in ('enc', 'mac')})
            stdouts.setdefault(kind, []).append(rec['stdout'])
    for kind, lst in stdouts.items():
        if len(lst) == 2 and lst[0] != lst[1]:
            out.append(viol('C01 %s report depends on the delivery schedule role=%s' % (kind, case['role']),
                            'nets=%r\n--- schedule A\n%s\n--- schedule B\n%s' % (case['nets'], lst[0][-1200:], lst[1][-1200:])))
    if case.get('asym') and 'text' in shown and 'json' in shown:
        for cat in ('enc', 'mac'):
            if shown['text'][cat] != shown['json'][cat]:
                out.append(viol('C01 text and JSON show different %s lists for a peer whose directions differ' % cat, 'text %r\njson %r' % (shown['text'][cat], shown['json'][cat])))
    exp = _expected(case)
    if reached and any(len(v) >= 2 for v in exp.values()):
        keys.append(h(case['role'], case['text_opts'], case['json_opts'], [n['seg'].get('mode') for n in case['nets']], sorted(exp.items())))
    counters['role_' + case['role']] = 1
    return {'violations': out, 'keys': keys, 'counters': counters}


def shrink(case):
    if case['role'] != 'ssh1':
        yield from shrink_profile_lists(case)
    for i in (0, 1):
        if case['nets'][i] != SIMPLE_NET:
            c = copy.deepcopy(case)
            c['nets'][i] = dict(SIMPLE_NET)
            yield c
    if case.get('knobs'):
        c = copy.deepcopy(case)
        c['knobs'] = {}
        yield c
    if case['text_opts'] != ['-n']:
        c = copy.deepcopy(case)
        c['text_opts'] = ['-n']
        yield c
    if case['profile'].get('pre'):
        c = copy.deepcopy(case)
        c['profile']['pre'] = []
        yield c
