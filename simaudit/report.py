"""Parsers for ssh-audit's text and JSON reports.  Only the documented grammar is relied on; widths, colours and
blank lines carry no meaning."""
import json
import re

ANSI = re.compile(r'\x1b\[[0-9;]*m')
ALG_TAGS = ('kex', 'key', 'enc', 'mac', 'aut')
LINE = re.compile(r'^\((\w{3})\) (.*)$')
NOTE = re.compile(r'^(.*?)\s+-- \[(fail|warn|info)\] (.*)$', re.S)
CONT = re.compile(r'^\s+`- \[(fail|warn|info)\] (.*)$')
SIZE = re.compile(r'^(\S+) \((\d+)-bit(?: cert/(\d+)-bit (\S+) CA)?\)$')


def strip_ansi(s):
    return ANSI.sub('', s)


class TextReport:
    def __init__(self, text, verbose=False):
        self.verbose = verbose
        self.raw = text
        self.plain = strip_ansi(text)
        self.gen = {}            # key -> value for (gen) lines ("banner", "software", ...)
        self.gen_lines = []
        self.algs = {t: [] for t in ALG_TAGS}   # tag -> [ {name, size, ca_size, ca_type, notes: [(level, text)]} ]
        self.fin = []            # (type, fingerprint text, note?)
        self.rec = []            # (sign, name, category, verb, extra)
        self.nfo = []
        self.sec = []
        self.other = []          # lines that are none of the above (error texts, warnings)
        self.sections = []
        self.errors = []
        self._parse()

    def _parse(self):
        cur = None
        for line in self.plain.split('\n'):
            if not line.strip():
                continue
            if line.startswith('# '):
                self.sections.append(line[2:].strip())
                cur = None
                continue
            m = LINE.match(line)
            if m:
                tag, rest = m.group(1), m.group(2)
                if tag in ALG_TAGS:
                    n = NOTE.match(rest)
                    if n:
                        left, level, text = n.group(1), n.group(2), n.group(3)
                    else:
                        left, level, text = rest.rstrip(), None, None
                    left = left.rstrip()
                    s = SIZE.match(left)
                    if s:
                        name = s.group(1)
                        size = int(s.group(2))
                        ca_size = int(s.group(3)) if s.group(3) else None
                        ca_type = s.group(4)
                    else:
                        name, size, ca_size, ca_type = left, None, None, None
                    ent = cur
                    if (not self.verbose) or ent is None or ent['tag'] != tag or ent['name'] != name or level is None:
                        # plain/batch: every "(tag) name" line opens an algorithm.  verbose: every note repeats the
                        # opening form, so adjacent lines with the same name belong together (split again below).
                        ent = {'tag': tag, 'name': name, 'size': size, 'ca_size': ca_size, 'ca_type': ca_type, 'notes': []}
                        self.algs[tag].append(ent)
                    if level is not None:
                        ent['notes'].append((level, text.rstrip()))
                    cur = ent
                    continue
                cur = None
                if tag == 'gen':
                    self.gen_lines.append(rest)
                    if ': ' in rest:
                        kk, vv = rest.split(': ', 1)
                        self.gen.setdefault(kk, vv)
                    else:
                        self.gen.setdefault(rest, '')
                elif tag == 'fin':
                    self.fin.append(rest)
                elif tag == 'rec':
                    r = re.match(r'^([+\-!])(\S+)\s*-- (\w+) algorithm to (\w+)(.*)$', rest)
                    if r:
                        self.rec.append((r.group(1), r.group(2), r.group(3), r.group(4), r.group(5).strip()))
                    else:
                        self.other.append(line)
                elif tag == 'nfo':
                    self.nfo.append(rest)
                elif tag == 'sec':
                    self.sec.append(rest)
                else:
                    self.other.append(line)
                continue
            c = CONT.match(line)
            if c and cur is not None:
                cur['notes'].append((c.group(1), c.group(2).rstrip()))
                continue
            cur = None
            self.other.append(line)
            if '[exception]' in line or line.startswith('Error') or 'Traceback' in line:
                self.errors.append(line)

        if self.verbose:
            # an adjacent duplicate name shows up as a k-fold repetition of the same note list
            for tag in ALG_TAGS:
                out = []
                for e in self.algs[tag]:
                    n = len(e['notes'])
                    k = 1
                    for period in range(1, n // 2 + 1):
                        if n % period == 0 and e['notes'] == e['notes'][:period] * (n // period):
                            k = n // period
                            break
                    if k > 1:
                        for _ in range(k):
                            c = dict(e)
                            c['notes'] = e['notes'][:n // k]
                            out.append(c)
                    else:
                        out.append(e)
                self.algs[tag] = out

    def names(self, tag):
        return [e['name'] for e in self.algs[tag]]

    def has_alg_report(self):
        return any(self.algs[t] for t in ALG_TAGS)

    def levels(self):
        out = set()
        for t in ALG_TAGS:
            for e in self.algs[t]:
                for lv, _ in e['notes']:
                    out.add(lv)
        return out

    def tags_in_text(self):
        """Severity tags anywhere in the printed report (the status fold of C02 is over these)."""
        return {'fail': '[fail]' in self.plain, 'warn': '[warn]' in self.plain}


def split_verbose_dupes(entries):
    return entries


def parse_json(stdout):
    """Returns (value, error).  The whole of stdout must be one JSON document."""
    try:
        return json.loads(stdout), None
    except ValueError as e:
        return None, str(e)


def json_alg_entries(doc, tag):
    out = []
    for e in doc.get(tag, []) or []:
        if isinstance(e, dict):
            out.append(e)
        else:
            out.append({'algorithm': e, 'notes': {}})
    return out


def split_targets(stdout):
    """Split multi-target text output into blocks on the 80-dash separator."""
    plain = strip_ansi(stdout)
    blocks = re.split(r'\n-{80}\n\n?', '\n' + plain)
    return [b.strip('\n') for b in blocks]
