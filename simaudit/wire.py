"""Independent SSH wire encoder/decoder (RFC 4251/4253, PROTOCOL.certkeys, SSH-1 framing).

Deliberately does not import ssh_audit: this is the reference the tool's bytes are judged by.
"""
import base64
import hashlib
import struct
import zlib

MSG_DISCONNECT = 1
MSG_IGNORE = 2
MSG_DEBUG = 4
MSG_KEXINIT = 20
MSG_NEWKEYS = 21
MSG_KEXDH_INIT = 30
MSG_KEXDH_REPLY = 31
MSG_GEX_REQUEST_OLD = 30
MSG_GEX_GROUP = 31
MSG_GEX_INIT = 32
MSG_GEX_REPLY = 33
MSG_GEX_REQUEST = 34
SSH1_SMSG_PUBLIC_KEY = 2

SSH1_CIPHERS = ['none', 'idea', 'des', '3des', 'tss', 'rc4', 'blowfish']
SSH1_AUTHS = ['none', 'rhosts', 'rsa', 'password', 'rhosts_rsa', 'tis', 'kerberos']


class WireError(Exception):
    pass


def nb(name):
    """Name (plan representation) -> bytes.  'hex:..' carries arbitrary bytes."""
    if isinstance(name, bytes):
        return name
    if name.startswith('hex:'):
        return bytes.fromhex(name[4:])
    return name.encode('utf-8')


def shown(name):
    """How a name that went over the wire is documented to be shown: UTF-8 with replacement."""
    return nb(name).decode('utf-8', 'replace')


def u32(n):
    return struct.pack('>I', n)


def sstr(b):
    if isinstance(b, str):
        b = b.encode('utf-8')
    return struct.pack('>I', len(b)) + b


def namelist(names):
    return sstr(b','.join(nb(n) for n in names))


def mpint(n):
    """RFC 4251 mpint, two's complement, minimal length."""
    if n == 0:
        return u32(0)
    if n > 0:
        b = n.to_bytes((n.bit_length() + 7) // 8, 'big')
        if b[0] & 0x80:
            b = b'\x00' + b
    else:
        length = ((n + 1).bit_length() + 8) // 8
        b = n.to_bytes(length, 'big', signed=True)
    return sstr(b)


def mpint1(n):
    """SSH-1 mpint: 16-bit bit count, then magnitude."""
    bits = n.bit_length()
    return struct.pack('>H', bits) + n.to_bytes((bits + 7) // 8, 'big')


class Reader:
    def __init__(self, data):
        self.d = bytes(data)
        self.p = 0

    def left(self):
        return len(self.d) - self.p

    def take(self, n):
        if n < 0 or self.p + n > len(self.d):
            raise WireError('short read: want %d have %d' % (n, self.left()))
        b = self.d[self.p:self.p + n]
        self.p += n
        return b

    def byte(self):
        return self.take(1)[0]

    def u32(self):
        return struct.unpack('>I', self.take(4))[0]

    def u64(self):
        return struct.unpack('>Q', self.take(8))[0]

    def string(self):
        return self.take(self.u32())

    def namelist(self):
        s = self.string()
        return s.split(b',') if s else []

    def mpint(self):
        s = self.string()
        return int.from_bytes(s, 'big', signed=True) if s else 0

    def mpint_raw(self):
        return self.string()


def frame(payload, pad_len=None, pad_byte=b'\x00', block=8):
    """SSH-2 binary packet (no MAC, no encryption)."""
    if pad_len is None:
        pad_len = block - ((5 + len(payload)) % block)
        if pad_len < 4:
            pad_len += block
    return struct.pack('>IB', 1 + len(payload) + pad_len, pad_len) + payload + pad_byte * pad_len


def parse_frame(buf, block=8):
    """Try to take one SSH-2 packet off the front of buf.  Returns (consumed, payload, info) or None if incomplete.
    info carries the framing facts used by the C10 oracle."""
    if len(buf) < 5:
        return None
    plen, pad = struct.unpack('>IB', bytes(buf[:5]))
    if plen > 1 << 20:
        raise WireError('packet length %d too large' % plen)
    total = 4 + plen
    if len(buf) < total:
        return None
    if plen < 1 + pad:
        raise WireError('padding %d larger than packet %d' % (pad, plen))
    payload = bytes(buf[5:5 + plen - pad - 1])
    info = {'packet_length': plen, 'padding': pad, 'total': total, 'payload_len': len(payload),
            'ok_mod': total % block == 0, 'ok_pad': pad >= 4, 'ok_min': total >= 16}
    return total, payload, info


def ssh1_crc(data):
    """SSH-1's CRC-32: the usual polynomial, but initial value 0 and no final inversion."""
    return (zlib.crc32(data, 0xffffffff) ^ 0xffffffff) & 0xffffffff


def frame1(ptype, payload):
    """SSH-1 packet."""
    body = bytes([ptype]) + payload
    length = len(body) + 4
    pad = 8 - (length % 8)
    padding = b'\x00' * pad
    crc = ssh1_crc(padding + body)
    return struct.pack('>I', length) + padding + body + struct.pack('>I', crc)


def kexinit_payload(cookie, kex, key, enc_c2s, enc_s2c, mac_c2s, mac_s2c, comp_c2s, comp_s2c, lang_c2s=(), lang_s2c=(), follows=False, reserved=0):
    p = bytes([MSG_KEXINIT]) + cookie
    for lst in (kex, key, enc_c2s, enc_s2c, mac_c2s, mac_s2c, comp_c2s, comp_s2c, lang_c2s, lang_s2c):
        p += namelist(lst)
    p += bytes([1 if follows else 0]) + u32(reserved)
    return p


def parse_kexinit(payload):
    r = Reader(payload)
    if r.byte() != MSG_KEXINIT:
        raise WireError('not KEXINIT')
    out = {'cookie': r.take(16)}
    for f in ('kex', 'key', 'enc_c2s', 'enc_s2c', 'mac_c2s', 'mac_s2c', 'comp_c2s', 'comp_s2c', 'lang_c2s', 'lang_s2c'):
        out[f] = r.namelist()
    out['follows'] = r.byte()
    out['reserved'] = r.u32()
    out['trailing'] = r.left()
    return out


def ssh1_pubkey_payload(cookie, skey_bits, skey_e, skey_n, hkey_bits, hkey_e, hkey_n, flags, cmask, amask):
    return (cookie + u32(skey_bits) + mpint1(skey_e) + mpint1(skey_n) + u32(hkey_bits) + mpint1(hkey_e) + mpint1(hkey_n)
            + u32(flags) + u32(cmask) + u32(amask))


# ---------------------------------------------------------------------------------------- host keys
def det_int(bits, tag):
    """Deterministic odd integer of exactly `bits` bits (never verified by the tool: only its encoding matters)."""
    if bits <= 0:
        return 0
    need = (bits + 7) // 8
    out = b''
    ctr = 0
    while len(out) < need:
        out += hashlib.sha256(('%s/%d/%d' % (tag, bits, ctr)).encode()).digest()
        ctr += 1
    n = int.from_bytes(out[:need], 'big')
    n &= (1 << bits) - 1
    n |= 1 << (bits - 1)
    n |= 1
    return n


def det_bytes(n, tag):
    out = b''
    ctr = 0
    while len(out) < n:
        out += hashlib.sha256(('%s/%d' % (tag, ctr)).encode()).digest()
        ctr += 1
    return out[:n]


ECDSA_LEN = {'nistp256': 32, 'nistp384': 48, 'nistp521': 66}


def plain_key_blob(ktype, bits=0, tag='k'):
    """Public key blob for a plain key of family ktype."""
    if ktype == 'ssh-rsa':
        return sstr('ssh-rsa') + mpint(65537) + mpint(det_int(bits, tag + '/rsa'))
    if ktype == 'ssh-ed25519':
        return sstr('ssh-ed25519') + sstr(det_bytes(32, tag + '/ed25519'))
    if ktype == 'ssh-ed448':
        return sstr('ssh-ed448') + sstr(det_bytes(57, tag + '/ed448'))
    if ktype.startswith('ecdsa-sha2-'):
        curve = ktype[len('ecdsa-sha2-'):]
        n = ECDSA_LEN[curve]
        return sstr(ktype) + sstr(curve) + sstr(b'\x04' + det_bytes(2 * n, tag + '/' + curve))
    if ktype == 'ssh-dss':
        p = det_int(bits or 1024, tag + '/dss-p')
        q = det_int(160, tag + '/dss-q')
        g = det_int((bits or 1024) - 1, tag + '/dss-g')
        y = det_int((bits or 1024) - 1, tag + '/dss-y')
        return sstr('ssh-dss') + mpint(p) + mpint(q) + mpint(g) + mpint(y)
    raise ValueError('unknown key type %r' % ktype)


def cert_blob(cert_type_name, base_type, bits, ca_type, ca_bits, tag='k', cert_kind=2):
    """OpenSSH certificate blob (PROTOCOL.certkeys)."""
    out = sstr(cert_type_name) + sstr(det_bytes(32, tag + '/nonce'))
    if base_type == 'ssh-rsa':
        out += mpint(65537) + mpint(det_int(bits, tag + '/rsa'))
    elif base_type == 'ssh-ed25519':
        out += sstr(det_bytes(32, tag + '/ed25519'))
    elif base_type.startswith('ecdsa-sha2-'):
        curve = base_type[len('ecdsa-sha2-'):]
        out += sstr(curve) + sstr(b'\x04' + det_bytes(2 * ECDSA_LEN[curve], tag + '/' + curve))
    elif base_type == 'ssh-dss':
        out += plain_key_blob('ssh-dss', bits, tag)[4 + 7:]
    else:
        raise ValueError(base_type)
    out += struct.pack('>Q', 1)              # serial
    out += u32(cert_kind)                    # 2 = host
    out += sstr('sim-host-key')              # key id
    out += sstr(sstr('sim.example'))         # valid principals
    out += struct.pack('>Q', 0) + struct.pack('>Q', 0xffffffffffffffff)
    out += sstr(b'')                         # critical options
    out += sstr(b'')                         # extensions
    out += sstr(b'')                         # reserved
    ca = plain_key_blob(ca_type, ca_bits, tag + '/ca')
    out += sstr(ca)
    out += sstr(sstr(ca_type) + sstr(det_bytes(64, tag + '/casig')))
    return out


def key_blob(spec, tag='k'):
    """spec: {'type': host-key algorithm family blob type, 'bits':..., 'ca_type':..., 'ca_bits':...}"""
    t = spec['type']
    if '-cert-v0' in t:
        base = t.split('-cert-v0')[0]
        return cert_blob(t, base, spec.get('bits', 0), spec['ca_type'], spec.get('ca_bits', 0), tag, spec.get('cert_kind', 2))
    return plain_key_blob(t, spec.get('bits', 0), tag)


def fp_sha256(blob):
    return base64.b64encode(hashlib.sha256(blob).digest()).decode('ascii').rstrip('=')


def fp_md5(blob):
    h = hashlib.md5(blob).hexdigest()
    return ':'.join(h[i:i + 2] for i in range(0, len(h), 2))


def parse_pubkey_file(path):
    """Read an OpenSSH .pub file -> (type, blob)."""
    with open(path, 'r') as f:
        parts = f.read().split()
    return parts[0], base64.b64decode(parts[1])


def blob_facts(blob):
    """Independent decode of a host-key blob: type, size in bits, CA type/size."""
    r = Reader(blob)
    t = r.string().decode('ascii', 'replace')
    facts = {'type': t, 'bits': 0, 'ca_type': '', 'ca_bits': 0}

    def plain_bits(rr, kt):
        if kt == 'ssh-rsa':
            rr.mpint()
            return rr.mpint().bit_length()
        if kt == 'ssh-ed25519':
            rr.string()
            return 256
        if kt == 'ssh-ed448':
            rr.string()
            return 456
        if kt.startswith('ecdsa-sha2-'):
            curve = rr.string().decode('ascii', 'replace')
            q = rr.string()
            return {'nistp256': 256, 'nistp384': 384, 'nistp521': 521}.get(curve, (len(q) - 1) // 2 * 8)
        if kt == 'ssh-dss':
            p = rr.mpint()
            rr.mpint(); rr.mpint(); rr.mpint()
            return p.bit_length()
        raise WireError('unknown key type %r' % kt)

    if '-cert-v0' in t:
        base = t.split('-cert-v0')[0]
        r.string()  # nonce
        facts['bits'] = plain_bits(r, base)
        r.u64(); r.u32(); r.string(); r.string(); r.u64(); r.u64(); r.string(); r.string(); r.string()
        ca = Reader(r.string())
        ct = ca.string().decode('ascii', 'replace')
        facts['ca_type'] = ct
        facts['ca_bits'] = plain_bits(ca, ct)
    else:
        facts['bits'] = plain_bits(r, t)
    return facts


# ---------------------------------------------------------------------------------------- field maps (for fault placement)
def _walk_plain_key(d, p, kt, out, pre):
    def s(name):
        nonlocal p
        if p + 4 > len(d):
            return False
        n = struct.unpack('>I', d[p:p + 4])[0]
        out.append((p, 4, pre + name, n))
        p += 4 + n
        return True
    if kt in ('ssh-rsa',):
        s('e.len') and s('n.len')
    elif kt in ('ssh-ed25519', 'ssh-ed448'):
        s('pk.len')
    elif kt.startswith('ecdsa-sha2-'):
        s('curve.len') and s('Q.len')
    elif kt == 'ssh-dss':
        s('p.len') and s('q.len') and s('g.len') and s('y.len')
    return p


def _walk_key_blob(d, base, out, pre='K_S.'):
    """Length fields inside a host-key blob that starts at absolute offset `base` of the message (d is the message)."""
    p = base
    if p + 4 > len(d):
        return
    n = struct.unpack('>I', d[p:p + 4])[0]
    out.append((p, 4, pre + 'type.len', n))
    kt = d[p + 4:p + 4 + n].decode('ascii', 'replace')
    p += 4 + n
    if '-cert-v0' in kt:
        basek = kt.split('-cert-v0')[0]
        if p + 4 <= len(d):
            nn = struct.unpack('>I', d[p:p + 4])[0]
            out.append((p, 4, pre + 'nonce.len', nn))
            p += 4 + nn
        p = _walk_plain_key(d, p, basek, out, pre)
        out.append((p, 8, pre + 'serial', None))
        p += 8
        out.append((p, 4, pre + 'cert_type', None))
        p += 4
        for name in ('keyid.len', 'principals.len'):
            if p + 4 > len(d):
                return
            nn = struct.unpack('>I', d[p:p + 4])[0]
            out.append((p, 4, pre + name, nn))
            p += 4 + nn
        p += 16
        for name in ('critopts.len', 'extensions.len', 'reserved.len'):
            if p + 4 > len(d):
                return
            nn = struct.unpack('>I', d[p:p + 4])[0]
            out.append((p, 4, pre + name, nn))
            p += 4 + nn
        if p + 4 > len(d):
            return
        nn = struct.unpack('>I', d[p:p + 4])[0]
        out.append((p, 4, pre + 'cakey.len', nn))
        _walk_key_blob(d, p + 4, out, pre + 'CA.')
        p += 4 + nn
        if p + 4 <= len(d):
            out.append((p, 4, pre + 'casig.len', struct.unpack('>I', d[p:p + 4])[0]))
    else:
        _walk_plain_key(d, p, kt, out, pre)


def length_fields(tag, data):
    """[(offset, width, name, current value)] of the length/type fields of a message the peer model sends."""
    out = []
    d = bytes(data)
    if tag in ('kexinit', 'reply', 'group', 'newkeys', 'debug', 'disconnect'):
        if len(d) < 6:
            return out
        out.append((0, 4, 'packet_length', struct.unpack('>I', d[:4])[0]))
        out.append((4, 1, 'padding_length', d[4]))
        out.append((5, 1, 'msg_type', d[5]))
        p = 6
        if tag == 'kexinit':
            p += 16
            for name in ('kex', 'key', 'enc_c2s', 'enc_s2c', 'mac_c2s', 'mac_s2c', 'comp_c2s', 'comp_s2c', 'lang_c2s', 'lang_s2c'):
                if p + 4 > len(d):
                    break
                n = struct.unpack('>I', d[p:p + 4])[0]
                out.append((p, 4, name + '.len', n))
                p += 4 + n
        elif tag == 'reply':
            n = struct.unpack('>I', d[p:p + 4])[0]
            out.append((p, 4, 'K_S.len', n))
            _walk_key_blob(d, p + 4, out)
            p += 4 + n
            for name in ('f.len', 'sig.len'):
                if p + 4 > len(d):
                    break
                n = struct.unpack('>I', d[p:p + 4])[0]
                out.append((p, 4, name, n))
                p += 4 + n
        elif tag == 'group':
            for name in ('p.len', 'g.len'):
                if p + 4 > len(d):
                    break
                n = struct.unpack('>I', d[p:p + 4])[0]
                out.append((p, 4, name, n))
                p += 4 + n
    elif tag == 'ssh1_pubkey':
        if len(d) < 4:
            return out
        plen = struct.unpack('>I', d[:4])[0]
        out.append((0, 4, 'packet_length', plen))
        pad = 8 - plen % 8
        out.append((4 + pad, 1, 'msg_type', d[4 + pad] if len(d) > 4 + pad else None))
        p = 4 + pad + 1 + 8
        out.append((p, 4, 'skey_bits', None))
        p += 4
        for name in ('skey_e.bits', 'skey_n.bits'):
            if p + 2 > len(d):
                return out
            b = struct.unpack('>H', d[p:p + 2])[0]
            out.append((p, 2, name, b))
            p += 2 + (b + 7) // 8
        out.append((p, 4, 'hkey_bits', None))
        p += 4
        for name in ('hkey_e.bits', 'hkey_n.bits'):
            if p + 2 > len(d):
                return out
            b = struct.unpack('>H', d[p:p + 2])[0]
            out.append((p, 2, name, b))
            p += 2 + (b + 7) // 8
        out.append((len(d) - 4, 4, 'crc', None))
    return out


def classify_handshake(stream):
    """Independent judgement of the bytes a peer delivered on the first connection, in SSH-2 server/client role:
    'well' (complete well-formed banner line and KEXINIT packet), 'ill', or 'unclear' (accept either treatment)."""
    import re
    d = bytes(stream)
    pos = 0
    banner = None
    nlines = 0
    while True:
        i = d.find(b'\n', pos)
        if i < 0:
            if b'SSH-' in d[pos:]:
                return 'unclear', 'identification string without a line feed'
            return 'ill', 'no identification string'
        line = d[pos:i].rstrip(b'\r')
        pos = i + 1
        nlines += 1
        if line.startswith(b'SSH-'):
            banner = line
            break
        if nlines > 1000:
            return 'unclear', 'many header lines'
    if not re.match(rb'^SSH-\d\.\d+-[\x21-\x7e]*( [\x20-\x7e]*)?$', banner):
        return 'unclear', 'banner outside the strict grammar'
    if not banner.startswith(b'SSH-2.0-') and not banner.startswith(b'SSH-1.99-'):
        return 'unclear', 'not an SSH-2 banner'
    rest = d[pos:]
    skipped = 0
    while True:
        if len(rest) < 5:
            return 'ill', 'no packet after banner'
        plen, pad = struct.unpack('>IB', rest[:5])
        if plen > 262144:
            return 'ill', 'huge packet length'
        if len(rest) < 4 + plen:
            return 'ill', 'truncated packet'
        if (4 + plen) % 8 != 0 or plen < 1 + pad:
            return 'ill', 'bad framing'
        payload = rest[5:5 + plen - pad - 1]
        if not payload:
            return 'ill', 'empty payload'
        if payload[0] in (MSG_DEBUG, MSG_IGNORE):
            # RFC 4253 section 11: either party may send these at any time after the identification strings; the KEXINIT is the
            # packet that follows them.  A padding shorter than 4 or a body that is not what section 11 lays out stays unclear.
            if pad < 4:
                return 'unclear', 'padding < 4 (debug/ignore packet)'
            body = payload[1:]
            try:
                r = Reader(body)
                if payload[0] == MSG_DEBUG:
                    r.take(1)
                    r.string()
                    r.string()
                else:
                    r.string()
                if r.left():
                    return 'unclear', 'debug/ignore packet with trailing bytes'
            except WireError:
                return 'unclear', 'debug/ignore packet whose body does not parse'
            rest = rest[4 + plen:]
            skipped += 1
            if skipped > 64:
                return 'unclear', 'many debug/ignore packets'
            continue
        break
    if payload[0] != MSG_KEXINIT:
        return 'ill', 'first packet type %d' % payload[0]
    if pad < 4:
        return 'unclear', 'padding < 4'
    try:
        k = parse_kexinit(payload)
    except WireError as e:
        return 'ill', 'KEXINIT does not parse: %s' % e
    if k['trailing']:
        return 'unclear', 'trailing bytes in KEXINIT'
    for f in ('kex', 'key', 'enc_c2s', 'enc_s2c', 'mac_c2s', 'mac_s2c', 'comp_c2s', 'comp_s2c'):
        for name in k[f]:
            if not name or any(c <= 32 or c == 127 for c in name):
                return 'unclear', 'name with control/space/empty'
    return 'well', ''
