"""Reference models written from the property statements (no ssh_audit code; the rating *database* is read as data
where a property says it is the specification)."""
import re

TERRAPIN_NOTE = 'vulnerable to the Terrapin attack (CVE-2023-48795), allowing message prefix truncation'
MARKER = {'server': 'kex-strict-s-v00@openssh.com', 'client': 'kex-strict-c-v00@openssh.com'}


def is_chacha(name):
    return name.startswith('chacha20-poly1305')


def is_cbc(name):
    return name.endswith('-cbc') or name.endswith('-cbc@openssh.org') or name.endswith('-cbc@ssh.com') or name == 'rijndael-cbc@lysator.liu.se'


def is_etm(name):
    return name.endswith('-etm@openssh.com')


def terrapin(role, kex, enc, mac):
    """Published rule.  Returns (marker_present, vulnerable ciphers, vulnerable MACs) in advertised order."""
    marker = MARKER[role] in kex
    chacha = [c for c in enc if is_chacha(c)]
    cbc = [c for c in enc if is_cbc(c)]
    etm = [m for m in mac if is_etm(m)]
    v_enc = list(chacha)
    v_mac = []
    if cbc and etm:
        v_enc += cbc
        v_mac += etm
    return marker, v_enc, v_mac


# ---------------------------------------------------------------------------------------- versions
def split_version(v):
    """'7.4p1' -> ((7, 4), 'p1')"""
    m = re.match(r'^(\d+(?:\.\d+)*)(.*)$', v)
    if not m:
        return None, v
    return tuple(int(x) for x in m.group(1).split('.')), m.group(2)


def cmp_numeric(a, b):
    """Component-wise numeric comparison of dotted versions (missing components count as absent: 7.4 < 7.4.1)."""
    ta, _ = split_version(a)
    tb, _ = split_version(b)
    return (ta > tb) - (ta < tb)


def version_at_least(have, need):
    return cmp_numeric(have, need) >= 0
