"""Fidelity anchors: the peer model, configured from the maintainers' Docker-suite key files and the lists visible
in the recorded results, must make the tool print the recorded output byte for byte."""
import base64
import json
import os
import struct

from . import wire
from .report import TextReport

KEX_PROBE_PRIORITY = None


def _docker(repo, *p):
    return os.path.join(repo, 'test', 'docker', *p)


def _pub(repo, name):
    t, blob = wire.parse_pubkey_file(_docker(repo, name))
    return blob


def _dropbear_pub(repo, name, nfields):
    """Dropbear private key file: public blob is the first nfields fields."""
    with open(_docker(repo, name), 'rb') as f:
        d = f.read()
    p = 0
    for _ in range(nfields):
        n = struct.unpack('>I', d[p:p + 4])[0]
        p += 4 + n
    return d[:p]


def _tinyssh_pub(repo):
    with open(_docker(repo, 'ed25519.pk'), 'rb') as f:
        pk = f.read()
    return wire.sstr('ssh-ed25519') + wire.sstr(pk)


ANCHORS = {
    'openssh_4.0p1_test1': {'status': 3, 'keys': lambda r: {'ssh-rsa': _pub(r, 'ssh_host_rsa_key_1024.pub'), 'ssh-dss': _pub(r, 'ssh_host_dsa_key.pub')},
                            'gex': {'sizes': [1024], 'style': 'openssh', 'grp_min': 1024, 'fallback14': True}},
    'openssh_5.6p1_test1': {'status': 3, 'keys': lambda r: {'ssh-rsa': _pub(r, 'ssh_host_rsa_key_1024.pub'), 'ssh-dss': _pub(r, 'ssh_host_dsa_key.pub')},
                            'gex': {'sizes': [1024], 'style': 'openssh', 'grp_min': 1024}},
    'openssh_5.6p1_test2': {'status': 3, 'keys': lambda r: {'ssh-rsa': _pub(r, 'ssh_host_rsa_key_1024.pub'),
                                                            'ssh-rsa-cert-v01@openssh.com': _pub(r, 'ssh_host_rsa_key_1024-cert_1024.pub')},
                            'gex': {'sizes': [1024], 'style': 'openssh', 'grp_min': 1024}},
    'openssh_5.6p1_test3': {'status': 3, 'keys': lambda r: {'ssh-rsa': _pub(r, 'ssh_host_rsa_key_1024.pub'),
                                                            'ssh-rsa-cert-v01@openssh.com': _pub(r, 'ssh_host_rsa_key_1024-cert_3072.pub')},
                            'gex': {'sizes': [1024], 'style': 'openssh', 'grp_min': 1024}},
    'openssh_5.6p1_test4': {'status': 3, 'keys': lambda r: {'ssh-rsa': _pub(r, 'ssh_host_rsa_key_3072.pub'),
                                                            'ssh-rsa-cert-v01@openssh.com': _pub(r, 'ssh_host_rsa_key_3072-cert_1024.pub')},
                            'gex': {'sizes': [1024], 'style': 'openssh', 'grp_min': 1024}},
    'openssh_5.6p1_test5': {'status': 3, 'keys': lambda r: {'ssh-rsa': _pub(r, 'ssh_host_rsa_key_3072.pub'),
                                                            'ssh-rsa-cert-v01@openssh.com': _pub(r, 'ssh_host_rsa_key_3072-cert_3072.pub')},
                            'gex': {'sizes': [1024], 'style': 'openssh', 'grp_min': 1024}},
    'openssh_8.0p1_test1': {'status': 3, 'keys': lambda r: {'ssh-rsa': _pub(r, 'ssh_host_rsa_key_3072.pub'), 'ecdsa-sha2-nistp256': _pub(r, 'ssh_host_ecdsa_key.pub'),
                                                            'ssh-ed25519': _pub(r, 'ssh_host_ed25519_key.pub')},
                            'gex': {'sizes': [1024], 'style': 'openssh', 'grp_min': 2048}},
    'openssh_8.0p1_test2': {'status': 3, 'keys': lambda r: {'ssh-ed25519': _pub(r, 'ssh_host_ed25519_key.pub'),
                                                            'ssh-ed25519-cert-v01@openssh.com': _pub(r, 'ssh_host_ed25519_key-cert.pub')},
                            'gex': {'sizes': [1024], 'style': 'openssh', 'grp_min': 2048}},
    'openssh_8.0p1_test3': {'status': 2, 'keys': lambda r: {'ssh-ed25519': _pub(r, 'ssh_host_ed25519_key.pub')},
                            'gex': {'sizes': [1024], 'style': 'openssh', 'grp_min': 2048}},
    'dropbear_2019.78_test1': {'status': 3, 'keys': lambda r: {'ssh-rsa': _dropbear_pub(r, 'dropbear_rsa_host_key_1024', 3),
                                                               'ssh-dss': _dropbear_pub(r, 'dropbear_dss_host_key', 5),
                                                               'ecdsa-sha2-nistp256': _dropbear_pub(r, 'dropbear_ecdsa_host_key', 3)}},
    'tinyssh_20190101_test1': {'status': 2, 'keys': lambda r: {'ssh-ed25519': _tinyssh_pub(r)}},
}


def build_plan(repo, name, json_mode=False, seed=1):
    a = ANCHORS[name]
    with open(_docker(repo, 'expected_results', name + '.json')) as f:
        doc = json.load(f)
    banner = doc['banner']['raw']
    if name.startswith('tinyssh'):
        banner = 'SSH-2.0-tinyssh_noversion KxW3zqS9'   # docker_test.sh filters the (random) banner out of the recording
    prof = {
        'banner': banner,
        'kex': [e['algorithm'] for e in doc['kex']],
        'key': [e['algorithm'] for e in doc['key']],
        'enc': [e['algorithm'] for e in doc['enc']],
        'mac': [e['algorithm'] for e in doc['mac']],
        'comp': doc['compression'],
        'keys': {k: {'blob_hex': v.hex()} for k, v in a['keys'](repo).items()},
    }
    if 'gex' in a:
        prof['gex'] = a['gex']
    argv = ['--skip-rate-test', 'localhost:2222']
    if json_mode:
        argv = ['-jj'] + argv
    plan = {'seed': seed, 'argv': argv,
            'world': {'hosts': {'localhost': {'answers': [[4, '127.0.0.1'], [6, '::1']]}},
                      'servers': [{'ip': '127.0.0.1', 'port': 2222, 'profile': prof}]},
            'net': {'rtt_us': 60}}
    return plan


def expected(repo, name, json_mode=False):
    with open(_docker(repo, 'expected_results', name + ('.json' if json_mode else '.txt'))) as f:
        return f.read()


def check_all(repo, run):
    """run(plan) -> record.  Returns list of (name, mode, ok, detail)."""
    out = []
    for name in sorted(ANCHORS):
        for jm in (False, True):
            plan = build_plan(repo, name, jm)
            rec = run(plan)
            if rec.get('harness_error'):
                out.append((name, jm, False, 'harness: ' + rec['harness_error'][-400:]))
                continue
            exp = expected(repo, name, jm)
            got = rec['stdout']
            if name.startswith('tinyssh'):
                # the same filter docker_test.sh applies before diffing
                import re
                if jm:
                    got = re.sub(r'"comments": ".*?"', '"comments": ""', got)
                    got = re.sub(r'"raw": ".+?"', '"raw": ""', got)
                else:
                    got = ''.join(ln for ln in got.splitlines(True) if '(gen) banner: ' not in ln)
            ok = got == exp and rec['status'] == ANCHORS[name]['status']
            detail = ''
            if not ok:
                gl, el = got.split('\n'), exp.split('\n')
                for i in range(max(len(gl), len(el))):
                    g = gl[i] if i < len(gl) else '<missing>'
                    e = el[i] if i < len(el) else '<missing>'
                    if g != e:
                        detail = 'status %r (want %r); first diff at line %d:\n  got: %r\n  exp: %r' % (rec['status'], ANCHORS[name]['status'], i + 1, g, e)
                        break
                else:
                    detail = 'status %r (want %r)' % (rec['status'], ANCHORS[name]['status'])
            out.append((name, jm, ok, detail))
    return out
