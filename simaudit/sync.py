"""Synchronisation seam: threading.Lock / RLock / Event / Semaphore / Condition objects *created by the code under test*
become cooperative objects owned by the simulator.

Why: inside a run exactly one task holds the baton.  A task that blocked in a real `lock.acquire()` would keep the baton
while waiting for a parked task to release the lock: the whole simulation would hang in real time and end as a harness
time-out instead of a verdict.  With this seam an acquire is a yield point, a contended acquire parks the task in the
kernel (so the scheduler decides who gets the lock next), and a lock that is never released ends the run with the kernel
outcome HANG, which the multi-target oracles judge ("the run does not end").

The replacement is decided by the *caller's module*: only code of the ssh_audit package (or the ssh-audit.py wrapper) gets
simulated objects; the standard library (queue, concurrent.futures, logging, threading itself) and the simulator keep real
ones.  The objects may be created outside a run (class attributes are created when ssh_audit is imported, before the
fork): outside a run they behave like the real thing.
"""
import sys
import threading as _threading

from .kernel import SimUnsupported

REAL = {}
_counter = [0]


def _world():
    from . import seams
    return seams.ACTIVE


def _from_tool(depth=2):
    try:
        f = sys._getframe(depth)
    except ValueError:
        return False
    name = f.f_globals.get('__name__', '')
    return name == 'ssh_audit' or name.startswith('ssh_audit.') or f.f_code.co_filename.endswith('ssh-audit.py')


def _us(timeout):
    return None if timeout is None or timeout < 0 else int(float(timeout) * 1_000_000)


class _Base:
    KIND = '?'

    def _init_base(self):
        _counter[0] += 1
        self._n = _counter[0]          # creation ordinal: stable name for the event log

    def _k(self, op):
        w = _world()
        if w is None:
            return None
        k = w.k
        k.record('tool', 'sync', self.KIND, self._n, op)
        w.sync_ops = getattr(w, 'sync_ops', 0) + 1
        k.tick()
        return k


class SimLock(_Base):
    KIND = 'lock'

    def __init__(self):
        self._init_base()
        self._real = REAL['Lock']()
        self._held = False

    def acquire(self, blocking=True, timeout=-1):
        k = self._k('acquire')
        if k is None:
            return self._real.acquire(blocking, timeout)
        if not blocking:
            k.block(None, None)
            if self._held:
                return False
        else:
            if self._held:
                w = _world()
                w.sync_contended = getattr(w, 'sync_contended', 0) + 1
            if not k.block(lambda: not self._held, _us(timeout)):
                return False
        self._held = True
        return True

    __enter__ = acquire

    def release(self):
        k = self._k('release')
        if k is None:
            return self._real.release()
        if not self._held:
            raise RuntimeError('release unlocked lock')
        self._held = False
        k.block(None, None)

    def __exit__(self, *a):
        self.release()

    def locked(self):
        if _world() is None:
            return self._real.locked()
        return self._held


class SimRLock(_Base):
    KIND = 'rlock'

    def __init__(self):
        self._init_base()
        self._real = REAL['RLock']()
        self._owner = None
        self._count = 0

    def acquire(self, blocking=True, timeout=-1):
        k = self._k('acquire')
        if k is None:
            return self._real.acquire(blocking, timeout)
        me = k.me().tid
        if self._owner == me:
            self._count += 1
            return True
        if not blocking:
            k.block(None, None)
            if self._owner is not None:
                return False
        elif not k.block(lambda: self._owner is None, _us(timeout)):
            return False
        self._owner, self._count = me, 1
        return True

    __enter__ = acquire

    def release(self):
        k = self._k('release')
        if k is None:
            return self._real.release()
        if self._owner != k.me().tid:
            raise RuntimeError('cannot release un-acquired lock')
        self._count -= 1
        if self._count == 0:
            self._owner = None
            k.block(None, None)

    def __exit__(self, *a):
        self.release()


class SimEvent(_Base):
    KIND = 'event'

    def __init__(self):
        self._init_base()
        self._real = REAL['Event']()
        self._flag = False

    def is_set(self):
        return self._real.is_set() if _world() is None else self._flag

    def set(self):
        k = self._k('set')
        if k is None:
            return self._real.set()
        self._flag = True
        k.block(None, None)

    def clear(self):
        k = self._k('clear')
        if k is None:
            return self._real.clear()
        self._flag = False

    def wait(self, timeout=None):
        k = self._k('wait')
        if k is None:
            return self._real.wait(timeout)
        return k.block(lambda: self._flag, _us(timeout))


class SimSemaphore(_Base):
    KIND = 'semaphore'
    BOUNDED = False

    def __init__(self, value=1):
        if value < 0:
            raise ValueError('semaphore initial value must be >= 0')
        self._init_base()
        self._real = REAL['BoundedSemaphore' if self.BOUNDED else 'Semaphore'](value)
        self._value = self._initial = value

    def acquire(self, blocking=True, timeout=None):
        k = self._k('acquire')
        if k is None:
            return self._real.acquire(blocking, timeout)
        if not blocking:
            k.block(None, None)
            if self._value <= 0:
                return False
        elif not k.block(lambda: self._value > 0, _us(timeout)):
            return False
        self._value -= 1
        return True

    __enter__ = acquire

    def release(self, n=1):
        k = self._k('release')
        if k is None:
            return self._real.release(n)
        if self.BOUNDED and self._value + n > self._initial:
            raise ValueError('Semaphore released too many times')
        self._value += n
        k.block(None, None)

    def __exit__(self, *a):
        self.release()


class SimBoundedSemaphore(SimSemaphore):
    BOUNDED = True


class SimCondition(_Base):
    KIND = 'condition'

    def __init__(self, lock=None):
        self._init_base()
        self._lock = lock if lock is not None else SimRLock()
        self._real = None
        self._gen = 0            # notifications issued so far
        self._waiting = []       # tickets of the waiters, oldest first
        self._woken = set()
        self._ticket = 0
        self.acquire = self._lock.acquire
        self.release = self._lock.release

    def __enter__(self):
        return self._lock.__enter__()

    def __exit__(self, *a):
        return self._lock.__exit__(*a)

    def wait(self, timeout=None):
        k = self._k('wait')
        if k is None:
            raise SimUnsupported('Condition.wait outside a simulated run on a simulated condition')
        self._ticket += 1
        t = self._ticket
        self._waiting.append(t)
        # release the lock completely (an RLock may be held several times)
        saved = None
        if isinstance(self._lock, SimRLock):
            saved = self._lock._count
            self._lock._count, self._lock._owner = 0, None
        else:
            self._lock.release()
        ok = k.block(lambda: t in self._woken, _us(timeout))
        if t in self._waiting:
            self._waiting.remove(t)
        self._woken.discard(t)
        if saved is not None:
            k.block(lambda: self._lock._owner is None, None)
            self._lock._owner, self._lock._count = k.me().tid, saved
        else:
            self._lock.acquire()
        return ok

    def wait_for(self, predicate, timeout=None):
        k = _world().k if _world() is not None else None
        end = None if timeout is None or k is None else k.now + _us(timeout)
        r = predicate()
        while not r:
            left = None
            if end is not None:
                left = (end - k.now) / 1_000_000.0
                if left <= 0:
                    break
            self.wait(left)
            r = predicate()
        return r

    def notify(self, n=1):
        k = self._k('notify')
        if k is None:
            raise SimUnsupported('Condition.notify outside a simulated run on a simulated condition')
        for t in self._waiting[:n]:
            self._woken.add(t)
        del self._waiting[:n]

    def notify_all(self):
        self.notify(len(self._waiting))

    notifyAll = notify_all


def _dispatch(real_name, sim_cls):
    def factory(*a, **kw):
        if _from_tool():
            return sim_cls(*a, **kw)
        return REAL[real_name](*a, **kw)
    factory.__name__ = real_name
    factory.__qualname__ = real_name
    return factory


def _tripwire(what):
    real = REAL[what]

    class Trip(real):        # the stdlib may subclass / isinstance these, so keep them classes
        def __new__(cls, *a, **kw):
            if _world() is not None and _from_tool():
                raise SimUnsupported('%s created by the code under test inside a simulated run (not modelled)' % what)
            return real.__new__(cls)
    Trip.__name__ = real.__name__
    Trip.__qualname__ = real.__qualname__
    return Trip


def install():
    import queue as _queue
    REAL.update({'Lock': _threading.Lock, 'RLock': _threading.RLock, 'Event': _threading.Event, 'Semaphore': _threading.Semaphore,
                 'BoundedSemaphore': _threading.BoundedSemaphore, 'Condition': _threading.Condition,
                 'Barrier': _threading.Barrier, 'queue.Queue': _queue.Queue})
    _threading.Lock = _dispatch('Lock', SimLock)
    _threading.RLock = _dispatch('RLock', SimRLock)
    _threading.Event = _dispatch('Event', SimEvent)
    _threading.Semaphore = _dispatch('Semaphore', SimSemaphore)
    _threading.BoundedSemaphore = _dispatch('BoundedSemaphore', SimBoundedSemaphore)
    _threading.Condition = _dispatch('Condition', SimCondition)
    # not modelled: a harness error rather than a real-time hang
    _threading.Barrier = _tripwire('Barrier')
    _queue.Queue = _tripwire('queue.Queue')
