"""Peer models: SimSSHServer, SimSSHClient.  Stepped by the kernel from arrival events (no threads)."""
import struct

from . import wire
from .kernel import subrng
from .wire import WireError

DH_KEX = {
    'diffie-hellman-group1-sha1': 1024, 'diffie-hellman-group14-sha1': 2048, 'diffie-hellman-group14-sha256': 2048,
    'diffie-hellman-group15-sha512': 3072, 'diffie-hellman-group16-sha512': 4096, 'diffie-hellman-group17-sha512': 6144,
    'diffie-hellman-group18-sha512': 8192,
}
ECDH_KEX = {'curve25519-sha256': 32, 'curve25519-sha256@libssh.org': 32, 'ecdh-sha2-nistp256': 65, 'ecdh-sha2-nistp384': 97,
            'ecdh-sha2-nistp521': 133}
GEX_KEX = ('diffie-hellman-group-exchange-sha1', 'diffie-hellman-group-exchange-sha256')
RSA_FAMILY = ('ssh-rsa', 'rsa-sha2-256', 'rsa-sha2-512')


def blob_type_for_alg(alg):
    """Host-key algorithm name -> type string of the key blob that is sent for it."""
    if alg in RSA_FAMILY:
        return 'ssh-rsa'
    if alg in ('rsa-sha2-256-cert-v01@openssh.com', 'rsa-sha2-512-cert-v01@openssh.com'):
        return 'ssh-rsa-cert-v01@openssh.com'
    return alg


class PeerEOF(Exception):
    pass


class PeerConn:
    """Drives one generator script over one connection end."""

    def __init__(self, world, end, owner, ordinal, script):
        self.w = world
        self.k = world.k
        self.end = end
        self.owner = owner
        self.ordinal = ordinal          # ordinal among this peer's connections
        self.buf = end.rx.buf           # shared with the pipe
        self.req = None
        self.done = False
        self.dead = False               # a fault ended the script
        self.msg_idx = 0
        self.delivered = bytearray()
        self.log = {'ordinal': ordinal, 'global': end.conn.ordinal, 'opened': self.k.now, 'tx': [], 'rx': [],
                    'frames': [], 'closed_by_peer_at': None, 'eof_seen': False, 'stage': 'open', 'script_error': None}
        end.rx.on_arrival = self.pump
        self.gen = script(self)
        self.result = None
        self.exc = None
        self.pump()

    # -------------------------------------------------- requests usable from scripts (yield them)
    def track(self):
        alive = not (self.end.sent_fin or self.end.rx.fin or self.end.rx.rst)
        live = getattr(self.owner, 'live_set', None)
        if live is None:
            return
        if alive:
            live.add(self.ordinal)
            if len(live) > self.owner.peak_live:
                self.owner.peak_live = len(live)
        else:
            live.discard(self.ordinal)

    def pump(self):
        try:
            self._pump()
        finally:
            self.track()

    def _pump(self):
        if self.done:
            return
        while True:
            if self.req is None:
                try:
                    if self.exc is not None:
                        e, self.exc = self.exc, None
                        self.req = self.gen.throw(e)
                    else:
                        r, self.result = self.result, None
                        self.req = self.gen.send(r)
                except StopIteration:
                    self.done = True
                    return
                except PeerEOF:
                    self.done = True
                    self.close()
                    return
                except WireError as e:
                    self.log['script_error'] = str(e)
                    self.done = True
                    self.close()
                    return
            req = self.req
            op = req[0]
            rx = self.end.rx
            if op == 'send':
                self.req = None
                self._send(req[1], req[2])
                if self.dead:
                    self.done = True
                    return
            elif op == 'line':
                i = self.buf.find(b'\n')
                if i >= 0:
                    line = bytes(self.buf[:i + 1])
                    del self.buf[:i + 1]
                    self.req, self.result = None, line
                elif rx.fin or rx.rst:
                    self.req, self.exc = None, PeerEOF()
                    self.log['eof_seen'] = True
                elif len(self.buf) > 65536:
                    self.req, self.exc = None, WireError('line too long')
                else:
                    return
            elif op == 'packet':
                try:
                    got = wire.parse_frame(self.buf)
                except WireError as e:
                    self.log['frames'].append({'error': str(e)})
                    self.req, self.exc = None, e
                    continue
                if got is not None:
                    total, payload, info = got
                    del self.buf[:total]
                    info['type'] = payload[0] if payload else None
                    self.log['frames'].append(info)
                    self.req, self.result = None, payload
                elif rx.fin or rx.rst:
                    if rx.fin and not rx.rst and len(self.buf) > 0:
                        # the tool closed the connection having written only part of a packet
                        self.log['frames'].append({'error': 'truncated packet at end of stream: %d bytes written, first bytes %s' % (len(self.buf), bytes(self.buf[:8]).hex())})
                    self.req, self.exc = None, PeerEOF()
                    self.log['eof_seen'] = True
                else:
                    return
            elif op == 'packet1':
                if len(self.buf) >= 4:
                    plen = struct.unpack('>I', bytes(self.buf[:4]))[0]
                    if plen > 1 << 18:
                        self.req, self.exc = None, WireError('ssh1 packet too large')
                        continue
                    pad = 8 - plen % 8
                    total = 4 + pad + plen
                    if len(self.buf) >= total:
                        raw = bytes(self.buf[:total])
                        del self.buf[:total]
                        self.req, self.result = None, raw
                        continue
                if rx.fin or rx.rst:
                    self.req, self.exc = None, PeerEOF()
                    self.log['eof_seen'] = True
                else:
                    return
            elif op == 'eof':
                # wait until the other side closes (discarding data)
                del self.buf[:]
                if rx.fin or rx.rst:
                    self.req, self.result = None, None
                    self.log['eof_seen'] = True
                    self.log['closed_by_peer_at'] = self.k.now
                else:
                    return
            elif op == 'drain':
                # like 'eof', but every further packet the tool sends is still decoded and logged
                while True:
                    try:
                        got = wire.parse_frame(self.buf)
                    except WireError:
                        del self.buf[:]
                        got = None
                    if got is None:
                        break
                    total, payload, info = got
                    del self.buf[:total]
                    info['type'] = payload[0] if payload else None
                    info['after_reply'] = True
                    self.log['frames'].append(info)
                if rx.fin or rx.rst:
                    if rx.fin and not rx.rst and len(self.buf) > 0:
                        self.log['frames'].append({'error': 'truncated packet at end of stream: %d bytes written, first bytes %s' % (len(self.buf), bytes(self.buf[:8]).hex()), 'after_reply': True})
                    del self.buf[:]
                    self.req, self.result = None, None
                    self.log['eof_seen'] = True
                    self.log['closed_by_peer_at'] = self.k.now
                else:
                    return
            elif op == 'sleep':
                self.req = ('sleeping',)
                self.k.after(req[1], self._wake)
                return
            elif op == 'sleeping':
                return
            elif op == 'close':
                self.req = None
                self.close()
            elif op == 'reset':
                self.req = None
                self.w.send_rst(self.end)
            else:
                raise RuntimeError('bad peer request %r' % (req,))

    def _wake(self):
        if self.req == ('sleeping',):
            self.req = None
            self.pump()

    def close(self, delay=0):
        if getattr(self.w, 'rst_after_close', False) and len(self.buf) > 0 and not self.end.sent_fin and not delay:
            # (linux profile) closing a socket that still holds unread data resets the connection instead of finishing it
            self.w.fired('rst_close_unread')
            self.w.send_rst(self.end)
        else:
            self.w.send_fin(self.end, extra_delay=delay)
        self.end.rx.closed_reader = True      # the peer's socket is gone: what still arrives for it is answered with a reset

    # -------------------------------------------------- sending with the fault layer
    def _send(self, tag, data):
        w = self.w
        idx = self.msg_idx
        self.msg_idx += 1
        faults = self.owner.faults_for(self.ordinal, tag, idx)
        rec = {'tag': tag, 'idx': idx, 'len': len(data), 'faults': []}
        if w.plan.get('keep_tx_msgs'):
            rec['hex'] = bytes(data).hex()
        self.log['tx'].append(rec)
        honest = bytes(data)
        delay = 0
        pre = b''
        after = None
        for f in faults:
            kind = f['kind']
            rec['faults'].append(kind)
            w.fired(kind)
            if kind == 'delay':
                delay += int(f.get('us', 1000))
            elif kind in ('truncate_close', 'truncate_stall', 'truncate_reset'):
                off = int(f.get('off', 0))
                data = data[:off]
                after = kind
            elif kind == 'corrupt':
                off = int(f.get('off', 0))
                repl = bytes.fromhex(f['hex'])
                if off <= len(data):
                    data = data[:off] + repl + data[off + len(repl):]
            elif kind == 'replace':
                data = bytes.fromhex(f['hex'])
            elif kind == 'insert_before':
                pre += bytes.fromhex(f['hex'])
            elif kind == 'dup':
                data = data + data
            elif kind == 'drop':
                data = b''
            elif kind == 'close_before':
                data = b''
                after = 'truncate_close'
            elif kind == 'garbage':
                rng = subrng(w.plan.get('seed', 0), 'garbage', self.ordinal, idx)
                data = bytes(rng.getrandbits(8) for _ in range(int(f.get('n', 32))))
            else:
                raise RuntimeError('unknown fault kind %r' % kind)
        rec['sent'] = len(pre) + len(data)
        out = pre + data
        # intact: the peer put exactly the honest message on the wire (a delay, or a close / reset placed after the whole message, leave it so)
        rec['intact'] = bytes(out) == honest
        rec['after'] = after
        if w.plan.get('keep_tx') and len(self.delivered) < 262144:
            self.delivered += out
        if out:
            atomic = tag in ('pre', 'banner', 'text')
            w.transmit(self.end, out, w.segment(out, atomic_lines=atomic), extra_delay=delay)
        if after == 'truncate_close':
            self.close(delay)
            self.dead = True
        elif after == 'truncate_reset':
            w.send_rst(self.end, extra_delay=delay)
            self.dead = True
        elif after == 'truncate_stall':
            self.dead = True
        self.k.record('peer', 'tx', self.owner.name, self.ordinal, tag, len(out), after or '')


def text_bytes(s):
    """Plan string -> bytes for banner-phase text (latin-1 so every byte value is expressible)."""
    if s.startswith('hex:'):
        return bytes.fromhex(s[4:])
    return s.encode('latin-1')


class SimSSHServer:
    def __init__(self, world, spec):
        self.w = world
        self.k = world.k
        self.spec = spec
        self.name = spec.get('name', '%s:%s' % (spec['ip'], spec['port']))
        self.p = spec['profile']
        self.faults = spec.get('faults', [])
        self.nconn = 0              # SYNs seen
        self.accepted = 0
        self.conns = []
        self.live_set = set()
        self.peak_live = 0
        self.log = {'name': self.name, 'syns': 0, 'gex_requests': [], 'gex_handed': [], 'hostkeys_sent': [], 'kexinits_rx': [],
                    'banners_rx': [], 'kex_inits': 0}
        world.listeners[(spec['ip'], int(spec['port']))] = self
        self._blob_cache = {}

    # ------------------------------------------------------------ admission
    def admit(self):
        """Called for every SYN.  'accept' | 'refuse' | 'blackhole'"""
        n = self.nconn
        self.nconn += 1
        self.log['syns'] += 1
        adm = self.p.get('admission', {})
        mode = adm.get('mode', 'always')
        if mode in ('refuse_after', 'blackhole_after') and n >= int(adm.get('after', 0)):
            self.w.fired(mode)
            return 'refuse' if mode == 'refuse_after' else 'blackhole'
        for f in self.faults:
            if f['kind'] in ('refuse', 'blackhole') and (f.get('conn') == n or ('conn_from' in f and n >= int(f['conn_from']))):
                self.w.fired(f['kind'])
                return f['kind']
        return 'accept'

    def faults_for(self, ordinal, tag, idx):
        out = []
        for f in self.faults:
            if f['kind'] in ('refuse', 'blackhole'):
                continue
            c = f.get('conn')
            if 'conn_from' in f:
                if ordinal < int(f['conn_from']):       # every connection from this ordinal on
                    continue
            elif c != '*' and c != ordinal:
                continue
            m = f.get('msg')
            if m == tag or m == idx:
                out.append(f)
        return out

    def accept(self, conn):
        ordinal = self.accepted
        self.accepted += 1
        pc = PeerConn(self.w, conn.b, self, ordinal, self.script)
        self.conns.append(pc)

    # ------------------------------------------------------------ key material
    def blob_for(self, alg):
        if alg in self._blob_cache:
            return self._blob_cache[alg]
        keys = self.p.get('keys', {})
        bt = blob_type_for_alg(alg)
        spec = keys.get(alg) or keys.get(bt)
        if spec is None:
            blob = None
        elif 'blob_hex' in spec:
            blob = bytes.fromhex(spec['blob_hex'])
        else:
            s = dict(spec)
            s.setdefault('type', bt)
            blob = wire.key_blob(s, tag=self.name)
        self._blob_cache[alg] = blob
        return blob

    # ------------------------------------------------------------ group exchange policy
    def choose_group(self, mn, n, mx, alg=None):
        """Return modulus size in bits, or None for refusal.  A server may keep a different moduli set per group-exchange algorithm."""
        gex = self.p.get('gex', {})
        sizes = sorted(gex.get('sizes_by_alg', {}).get(alg, gex.get('sizes', [2048, 3072, 4096, 6144, 8192])))
        style = gex.get('style', 'strict')
        if style == 'strict':
            if mx < mn:
                return None
            inr = [s for s in sizes if mn <= s <= mx]
            if not inr:
                return None
            up = [s for s in inr if s >= n]
            return up[0] if up else inr[-1]
        if style == 'roundup':
            up = [s for s in sizes if s >= n]
            if up:
                return up[0]
            return sizes[-1] if sizes else None
        if style == 'openssh':
            grp_min = int(gex.get('grp_min', 2048))
            grp_max = 8192
            mn2 = max(grp_min, mn)
            mx2 = min(grp_max, mx)
            n2 = min(max(n, mn2), mx2)
            if mx2 < mn2 or n2 < mn2 or mx2 < n2:
                return None
            inr = [s for s in sizes if mn2 <= s <= mx2]
            if not inr:
                if not gex.get('fallback', True):
                    return None
                return 2048 if mx2 < 3072 else (4096 if mx2 < 6144 else 8192)
            up = [s for s in inr if s >= n2]
            return up[0] if up else inr[-1]
        raise ValueError('gex style %r' % style)

    # ------------------------------------------------------------ per-connection script
    def script(self, pc):
        p = self.p
        log = pc.log
        yield from self._script(pc, p, log)

    def _script(self, pc, p, log):
        adm = p.get('admission', {})
        mode = adm.get('mode', 'always')
        after = int(adm.get('after', 0))
        if mode != 'always' and pc.ordinal >= after:
            self.w.fired('admission_' + mode)
            if mode == 'throttle':
                yield ('send', 'text', b'Exceeded MaxStartups\r\n')
                yield ('close',)
                return
            if mode == 'silent':
                yield ('eof',)
                yield ('close',)
                return
            if mode == 'close':
                yield ('close',)
                return
        eol = text_bytes(p.get('eol', '\r\n'))
        for line in p.get('pre', []):
            yield ('send', 'pre', text_bytes(line) + eol)
            if p.get('pre_gap_us'):
                yield ('sleep', int(p['pre_gap_us']))      # a tarpit: one line at a time, each just inside the reader's timeout
        d = int(p.get('banner_delay_us', 0))
        if d and not (int(p.get('banner_delay_from', 0)) <= pc.ordinal < int(p.get('banner_delay_until', 1 << 30))):
            d = 0       # the delay applies to a range of this server's connections only (a server that becomes slow, or fast, later on)
        if d:
            yield ('sleep', d)
        yield ('send', 'banner', text_bytes(p['banner']) + eol)
        log['stage'] = 'banner_sent'
        early_kexinit = p.get('early_kexinit', False)
        ssh2 = p.get('ssh2', True)
        ssh1 = p.get('ssh1')
        if early_kexinit and ssh2:
            yield ('send', 'kexinit', self.framed_kexinit())
        line = yield ('line',)
        cb = line.rstrip(b'\r\n')
        self.log['banners_rx'].append(cb.decode('latin-1'))
        log['rx'].append(('banner', cb.decode('latin-1')))
        client_v1 = cb.startswith(b'SSH-1.')
        if client_v1:
            if not ssh1:
                yield ('send', 'vermismatch', b'Protocol major versions differ.\n')
                yield ('close',)
                return
            yield from self._script_ssh1(pc, ssh1, log)
            return
        if not ssh2:
            yield ('send', 'vermismatch', b'Protocol major versions differ.\n')
            yield ('close',)
            return
        if not early_kexinit:
            yield ('send', 'kexinit', self.framed_kexinit())
        log['stage'] = 'kexinit_sent'
        payload = yield ('packet',)
        while payload and payload[0] in (wire.MSG_IGNORE, wire.MSG_DEBUG):
            payload = yield ('packet',)
        if not payload or payload[0] != wire.MSG_KEXINIT:
            log['rx'].append(('unexpected', payload[0] if payload else None))
            yield ('close',)
            return
        ck = wire.parse_kexinit(payload)
        ckd = {f: [x.decode('latin-1') for x in ck[f]] for f in ck if isinstance(ck[f], list)}
        ckd['trailing'] = ck['trailing']
        ckd['conn'] = pc.ordinal
        self.log['kexinits_rx'].append(ckd)
        log['rx'].append(('kexinit', ckd))
        log['stage'] = 'kexinit_rx'
        # negotiate
        mykex = [wire.nb(x) for x in p.get('kex', [])]
        mykey = [wire.nb(x) for x in p.get('key', [])]
        kex = next((x for x in ck['kex'] if x in mykex), None)
        key = next((x for x in ck['key'] if x in mykey and self.blob_for(x.decode('latin-1')) is not None), None)
        payload = yield ('packet',)
        while payload and payload[0] in (wire.MSG_IGNORE, wire.MSG_DEBUG):
            payload = yield ('packet',)
        mtype = payload[0] if payload else None
        log['rx'].append(('kexmsg', mtype, len(payload)))
        if key is not None:
            self.log.setdefault('hostkey_negotiated', []).append({'conn': pc.ordinal, 'alg': key.decode('latin-1')})
        if key is not None and key.decode('latin-1') in p.get('unsignable', []):
            # the host-key algorithm is advertised, but this server cannot sign with it (e.g. a crypto policy that forbids SHA-1)
            log['stage'] = 'cannot_sign'
            yield ('send', 'disconnect', self.frame(bytes([wire.MSG_DISCONNECT]) + wire.u32(3) + wire.sstr('signature failed') + wire.sstr('')))
            yield ('close',)
            return
        if kex is None or key is None:
            log['stage'] = 'no_common_alg'
            yield ('send', 'disconnect', self.frame(bytes([wire.MSG_DISCONNECT]) + wire.u32(3) + wire.sstr('no matching algorithm') + wire.sstr('')))
            yield ('close',)
            return
        kexs = kex.decode('latin-1')
        keys_ = key.decode('latin-1')
        blob = self.blob_for(keys_)
        if kexs in GEX_KEX:
            if mtype == wire.MSG_GEX_REQUEST:
                r = wire.Reader(payload[1:])
                mn, n, mx = r.u32(), r.u32(), r.u32()
            elif mtype == wire.MSG_GEX_REQUEST_OLD:
                r = wire.Reader(payload[1:])
                n = r.u32()
                mn, mx = 1024, 8192
            else:
                yield ('close',)
                return
            size = self.choose_group(mn, n, mx, kexs)
            self.log['gex_requests'].append({'conn': pc.ordinal, 'alg': kexs, 'min': mn, 'n': n, 'max': mx, 'answer': size, 'delivered': False})
            log['stage'] = 'gex_request'
            if size is None:
                yield ('send', 'disconnect', self.frame(bytes([wire.MSG_DISCONNECT]) + wire.u32(3) + wire.sstr('no matching DH grp found') + wire.sstr('')))
                yield ('close',)
                return
            pmod = wire.det_int(size, self.name + '/gex')
            g = int(self.p.get('gex', {}).get('g', 2))
            if self.p.get('quiet_packets'):      # SSH_MSG_IGNORE / SSH_MSG_DEBUG packets ahead of the message (RFC 4253 section 11): not a fault
                yield ('send', 'quiet', bytes.fromhex(self.p['quiet_packets']))
            yield ('send', 'group', self.frame(bytes([wire.MSG_GEX_GROUP]) + wire.mpint(pmod) + wire.mpint(g)))
            if pc.log['tx'][-1]['intact']:
                self.log['gex_requests'][-1]['delivered'] = True
                self.log['gex_handed'].append((kexs, size))
            payload = yield ('packet',)
            mtype = payload[0] if payload else None
            log['rx'].append(('kexmsg', mtype, len(payload)))
            if mtype != wire.MSG_GEX_INIT:
                yield ('close',)
                return
            self.log['kex_inits'] += 1
            e = wire.Reader(payload[1:]).mpint_raw()
            log['rx'].append(('gex_init_e', e.hex()[:64], len(e), pmod.bit_length()))
            x = self.w.last_x
            log['rx'].append(('gex_e_matches_x', x is not None and int.from_bytes(e, 'big') == pow(g, x, pmod)))
            self._check_e(log, e, pmod)
            reply = bytes([wire.MSG_GEX_REPLY]) + wire.sstr(blob) + wire.mpint(wire.det_int(min(size, 512) - 1, 'f')) + wire.sstr(wire.sstr(keys_) + wire.sstr(wire.det_bytes(64, 'sig')))
            if self.p.get('quiet_packets'):      # SSH_MSG_IGNORE / SSH_MSG_DEBUG packets ahead of the message (RFC 4253 section 11): not a fault
                yield ('send', 'quiet', bytes.fromhex(self.p['quiet_packets']))
            yield ('send', 'reply', self.frame(reply))
        else:
            if mtype != wire.MSG_KEXDH_INIT:
                yield ('close',)
                return
            self.log['kex_inits'] += 1
            if kexs in DH_KEX:
                e = wire.Reader(payload[1:]).mpint_raw()
                log['rx'].append(('dh_init_e', len(e), DH_KEX[kexs]))
                self._check_e(log, e, None)
                fpart = wire.mpint(wire.det_int(255, 'f'))
            else:
                q = wire.Reader(payload[1:]).string()
                log['rx'].append(('ecdh_init_q', len(q), ECDH_KEX.get(kexs)))
                fpart = wire.sstr(wire.det_bytes(ECDH_KEX.get(kexs, 32), 'qs'))
            reply = bytes([wire.MSG_KEXDH_REPLY]) + wire.sstr(blob) + fpart + wire.sstr(wire.sstr(keys_) + wire.sstr(wire.det_bytes(64, 'sig')))
            ndebug = int(p.get('debug_before_reply', 0))
            for _ in range(ndebug):
                yield ('send', 'debug', self.frame(bytes([wire.MSG_DEBUG, 0]) + wire.sstr('sim debug') + wire.sstr('')))
            if self.p.get('quiet_packets'):      # SSH_MSG_IGNORE / SSH_MSG_DEBUG packets ahead of the message (RFC 4253 section 11): not a fault
                yield ('send', 'quiet', bytes.fromhex(self.p['quiet_packets']))
            yield ('send', 'reply', self.frame(reply))
        if pc.log['tx'][-1]['intact']:
            self.log['hostkeys_sent'].append({'conn': pc.ordinal, 'alg': keys_, 'kex': kexs, 'blob_sha256': wire.fp_sha256(blob), 'len': len(blob)})
        log['stage'] = 'reply_sent'
        yield ('send', 'newkeys', self.frame(bytes([wire.MSG_NEWKEYS])))
        yield ('drain',)
        yield ('close',)

    def _check_e(self, log, e, pmod):
        """Canonical positive mpint?  (C10)"""
        ok = len(e) > 0 and not (e[0] & 0x80) and not (e[0] == 0 and (len(e) == 1 or not (e[1] & 0x80)))
        log['rx'].append(('e_canonical', ok))
        if pmod is not None:
            val = int.from_bytes(e, 'big')
            log['rx'].append(('e_in_range', 1 <= val < pmod))

    def _script_ssh1(self, pc, ssh1, log):
        cookie = wire.det_bytes(8, self.name + '/c1')
        hk_bits = int(ssh1.get('hkey_bits', 1024))
        sk_bits = int(ssh1.get('skey_bits', 768))
        payload = wire.ssh1_pubkey_payload(cookie, sk_bits, 65537, wire.det_int(sk_bits, self.name + '/sk1'), hk_bits, 65537,
                                           wire.det_int(hk_bits, self.name + '/hk1'), int(ssh1.get('flags', 2)), int(ssh1.get('cmask', 0x48)),
                                           int(ssh1.get('amask', 0x0c)))
        yield ('send', 'ssh1_pubkey', wire.frame1(wire.SSH1_SMSG_PUBLIC_KEY, payload))
        log['stage'] = 'ssh1_pubkey_sent'
        yield ('eof',)
        yield ('close',)

    def frame(self, payload):
        """Frame a packet sent after the KEXINIT: minimal padding unless the profile asks for padding variation on every packet."""
        if self.p.get('pad_all'):
            return self._padded(payload)
        return wire.frame(payload)

    def _padded(self, payload):
        extra = int(self.p.get('pad_extra', 0))
        pad = 8 - ((5 + len(payload)) % 8)
        if pad < 4:
            pad += 8
        pad = min(255 - (255 - pad) % 8, pad + 8 * extra)
        return wire.frame(payload, pad_len=pad, pad_byte=bytes([int(self.p.get('pad_byte', 0))]))

    def framed_kexinit(self):
        payload = self.kexinit()
        extra = int(self.p.get('pad_extra', 0))
        if not extra and 'pad_byte' not in self.p:
            return wire.frame(payload)
        pad = 8 - ((5 + len(payload)) % 8)
        if pad < 4:
            pad += 8
        pad = min(255 - (255 - pad) % 8, pad + 8 * extra)
        return wire.frame(payload, pad_len=pad, pad_byte=bytes([int(self.p.get('pad_byte', 0))]))

    def kexinit(self):
        p = self.p
        cookie = bytes.fromhex(p['cookie']) if 'cookie' in p else wire.det_bytes(16, self.name + '/cookie')
        enc = p.get('enc', [])
        mac = p.get('mac', [])
        comp = p.get('comp', ['none'])
        lang = p.get('lang', [])
        return wire.kexinit_payload(cookie, p.get('kex', []), p.get('key', []), p.get('enc_c2s', enc), enc, p.get('mac_c2s', mac), mac,
                                    p.get('comp_c2s', comp), comp, lang, lang, bool(p.get('follows', False)), int(p.get('reserved', 0)))

    def summary(self):
        out = dict(self.log)
        out['accepted'] = self.accepted
        out['peak_live'] = self.peak_live
        out['conns'] = [pc.log for pc in self.conns]
        for pc in self.conns:
            pc.log['done'] = pc.done
            if self.w.plan.get('keep_tx'):
                pc.log['delivered_hex'] = bytes(pc.delivered).hex()
            pc.log['rx_left'] = len(pc.buf)
            pc.log['tool_closed'] = bool(pc.end.rx.fin or pc.end.rx.rst)
        # a group (host key) counts as handed out when its message went out whole, also when a fault ended the script right after it
        by_conn = {pc.ordinal: pc.log for pc in self.conns}
        for rq in out.get('gex_requests', []):
            tx = [t for t in by_conn.get(rq['conn'], {}).get('tx', []) if t['tag'] == 'group']
            lost_to_reset = tx and tx[-1].get('after') == 'truncate_reset' and not getattr(self.w, 'rst_keeps_data', True)
            if tx and tx[-1]['intact'] and rq.get('answer') is not None and not lost_to_reset:
                # (a reset right behind the message discards it unread under the socket profile that drops queued data)
                rq['delivered'] = True
        return out


class SimSSHClient:
    """An SSH client that connects to the tool's listener (client audits)."""

    def __init__(self, world, spec):
        self.w = world
        self.k = world.k
        self.spec = spec
        self.name = spec.get('name', 'client')
        self.p = spec['profile']
        self.faults = spec.get('faults', [])
        self.conns = []
        self.log = {'name': self.name, 'connected': False, 'refused': 0, 'kexinits_rx': [], 'banners_rx': []}
        self.k.at(int(spec.get('at_us', 1000)), self.connect)

    def faults_for(self, ordinal, tag, idx):
        return [f for f in self.faults if f.get('msg') in (tag, idx)]

    def connect(self):
        ip, port = self.spec['to']
        lst = self.w.tool_listeners.get((ip, int(port)))
        if lst is None or lst.closed:
            self.log['refused'] += 1
            retry = int(self.spec.get('retry_us', 0))
            if retry and self.log['refused'] < int(self.spec.get('retries', 50)):
                self.k.after(retry, self.connect)
            return
        src = tuple(self.spec.get('from', ['192.0.2.7', 51234]))
        conn = self.w.new_conn(src, (ip, int(port)))
        self.log['connected'] = True
        self.w.connect_log.append((0, ip, int(port), 'inbound'))
        self.k.after(self.w.lat(), self._syn_arrives, lst, conn)

    def _syn_arrives(self, lst, conn):
        if lst.closed:
            return
        lst.pending.append(conn)
        pc = PeerConn(self.w, conn.a, self, len(self.conns), self.script)
        self.conns.append(pc)

    def script(self, pc):
        p = self.p
        log = pc.log
        eol = text_bytes(p.get('eol', '\r\n'))
        for line in p.get('pre', []):
            yield ('send', 'pre', text_bytes(line) + eol)
        yield ('send', 'banner', text_bytes(p['banner']) + eol)
        if p.get('early_kexinit', True):
            yield ('send', 'kexinit', wire.frame(self.kexinit()))
        line = yield ('line',)
        self.log['banners_rx'].append(line.rstrip(b'\r\n').decode('latin-1'))
        if not p.get('early_kexinit', True):
            yield ('send', 'kexinit', wire.frame(self.kexinit()))
        payload = yield ('packet',)
        if payload and payload[0] == wire.MSG_KEXINIT:
            ck = wire.parse_kexinit(payload)
            self.log['kexinits_rx'].append({f: [x.decode('latin-1') for x in ck[f]] for f in ck if isinstance(ck[f], list)})
        log['stage'] = 'kexinit_rx'
        yield ('eof',)
        yield ('close',)

    def kexinit(self):
        p = self.p
        cookie = wire.det_bytes(16, self.name + '/cookie')
        enc = p.get('enc', [])
        mac = p.get('mac', [])
        comp = p.get('comp', ['none'])
        return wire.kexinit_payload(cookie, p.get('kex', []), p.get('key', []), enc, p.get('enc_s2c', enc), mac, p.get('mac_s2c', mac),
                                    comp, p.get('comp_s2c', comp), [], [], False, 0)

    def summary(self):
        out = dict(self.log)
        out['conns'] = [pc.log for pc in self.conns]
        for pc in self.conns:
            pc.log['done'] = pc.done
            if self.w.plan.get('keep_tx'):
                pc.log['delivered_hex'] = bytes(pc.delivered).hex()
            pc.log['tool_closed'] = bool(pc.end.rx.fin or pc.end.rx.rst)
        return out
