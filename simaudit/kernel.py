"""Simulation kernel: virtual clock, event heap, cooperative tasks (real threads, one runs at a time).

Time is integer microseconds.  Nothing here reads a real clock or draws from an unseeded source.
"""
import hashlib
import heapq
import random
import threading


def subrng(seed, *purpose):
    """Independent PRNG per (seed, purpose): removing one consumer never reshuffles another."""
    h = hashlib.blake2b(digest_size=16)
    h.update(repr(seed).encode())
    for p in purpose:
        h.update(b'\x00')
        h.update(repr(p).encode())
    return random.Random(int.from_bytes(h.digest(), 'big'))


class SimAbort(BaseException):
    """Raised inside the code under test when the run is ended by the kernel (never caught by `except Exception`)."""


UNSUPPORTED = []


class SimUnsupported(Exception):
    """The code under test used a call the simulator does not model: harness error, never a violation."""

    def __init__(self, *a):
        super().__init__(*a)
        UNSUPPORTED.append(' '.join(str(x) for x in a))


class Task:
    __slots__ = ('tid', 'name', 'sem', 'pred', 'deadline', 'alive', 'prio', 'started')

    def __init__(self, tid, name):
        self.tid = tid
        self.name = name
        self.sem = threading.Semaphore(0)
        self.pred = None
        self.deadline = None
        self.alive = True
        self.prio = 0
        self.started = False


_STORES = ('STORE_ATTR', 'STORE_GLOBAL', 'STORE_SUBSCR', 'DELETE_SUBSCR', 'DELETE_ATTR')
_store_cache = {}


def _store_lines(code):
    """Line numbers of a code object that contain a write to an attribute, a global or a container item."""
    s = _store_cache.get(code)
    if s is None:
        import dis
        s, cur = set(), None
        for ins in dis.get_instructions(code):
            if ins.starts_line is not None:
                cur = ins.starts_line
            if ins.opname in _STORES:
                s.add(cur)
        _store_cache[code] = s
    return s


class Kernel:
    EPOCH = 1_750_000_000  # fixed wall-clock origin (seconds)

    def __init__(self, seed, sched=None, cpu_cost=(1, 50), max_events=2_000_000, max_vtime_s=4 * 3600, quantum_us=0):
        sched = sched or {}
        self.seed = seed
        self.now = 0
        self.heap = []
        self.seq = 0
        self.events_run = 0
        self.max_events = max_events
        self.max_vtime = int(max_vtime_s * 1_000_000)
        self.cpu_lo, self.cpu_hi = cpu_cost
        self.cpu_rng = subrng(seed, 'cpu')
        self.tie_rng = subrng(seed, 'tie')
        self.sched_rng = subrng(sched.get('seed', seed), 'sched')
        self.policy = sched.get('policy', 'random')
        self.starve = sched.get('starve')  # task id that is only picked when nothing else is ready
        self.quantum_us = quantum_us        # coarse clock: time() is rounded down to this quantum
        self.clock_jump = None              # (at_us, delta_us) one jump of the wall clock, forwards or backwards
        self.wall_offset = 0
        self.tasks = []
        self.current = None
        self.rr_last = -1
        self.switches = 0
        self.sched_trace = []     # (task id) at each context switch
        self.log = []             # event log: tuples
        self.log_hash = hashlib.sha256()
        self.nlog = 0
        self.keep_log = True
        self.abort_handler = None  # called with outcome string; must not return
        self.outcome = None
        main = Task(0, 'main')
        main.started = True
        self.tasks.append(main)
        self.current = main
        self._tls = threading.local()
        self._tls.task = main
        # optional fine-grained pre-emption: line events of the code under test become extra yield points
        self.preempt_p = float(sched.get('preempt_p', 0) or 0)
        self.preempt_prefix = sched.get('preempt_prefix')
        self.preempt_rng = subrng(sched.get('seed', seed), 'preempt')
        self.preemptions = 0
        # 'store' mode aims the pre-emptions at the lines that follow a write to an attribute, a global or a container item (the
        # places where a value shared between threads can change under a reader), and gives the task switched to a seeded
        # stretch of lines to itself so that it reaches its own use of that object before the pre-empted task continues
        self.preempt_mode = sched.get('preempt_mode', 'uniform')
        self.preempt_stretch = list(sched.get('preempt_stretch') or [0])
        self.no_preempt_until = 0
        self.lines = 0

    # ------------------------------------------------------------------ logging
    def record(self, actor, op, *args):
        rec = (self.nlog, self.now, actor, op) + args
        self.nlog += 1
        self.log_hash.update(repr(rec).encode('utf-8', 'backslashreplace'))
        if self.keep_log and len(self.log) < 20000:
            self.log.append(rec)

    def digest(self):
        return self.log_hash.hexdigest()

    # ------------------------------------------------------------------ clock
    def wall(self):
        t = self.now
        if self.clock_jump is not None and t >= self.clock_jump[0]:
            t += self.clock_jump[1]
        if self.quantum_us:
            t -= t % self.quantum_us
        return self.EPOCH + t / 1_000_000.0

    def tick(self):
        if self.cpu_hi:
            self.now += self.cpu_rng.randint(self.cpu_lo, self.cpu_hi)

    # ------------------------------------------------------------------ events
    def at(self, t, fn, *args):
        if t < self.now:
            t = self.now
        self.seq += 1
        heapq.heappush(self.heap, (t, self.tie_rng.getrandbits(16), self.seq, fn, args))

    def after(self, d, fn, *args):
        self.at(self.now + int(d), fn, *args)

    def _run_due(self):
        # Events that fell due while a task was computing are handled now, but each one at its own time: what a peer does in
        # response (an answer, a reset) is scheduled from the moment the cause arrived, not from the moment the task next yielded.
        heap = self.heap
        real_now = self.now
        try:
            while heap and heap[0][0] <= real_now:
                t, _tb, _s, fn, args = heapq.heappop(heap)
                self.events_run += 1
                if self.events_run > self.max_events:
                    self.abort('EVENTS_EXCEEDED')
                if t > self.now or t < self.now:
                    self.now = t
                fn(*args)
        finally:
            self.now = real_now

    # ------------------------------------------------------------------ tasks
    def me(self):
        return self._tls.task

    def new_task(self, name):
        t = Task(len(self.tasks), name)
        t.prio = self.sched_rng.random()
        self.tasks.append(t)
        return t

    def _ready(self, t):
        if not t.alive or not t.started:
            return False
        if t.pred is None:
            return True
        if t.deadline is not None and self.now >= t.deadline:
            return True
        return bool(t.pred())

    def _pick(self, cands, me):
        if len(cands) == 1:
            return cands[0]
        if self.starve is not None:
            rest = [t for t in cands if t.tid != self.starve]
            if rest:
                cands = rest
                if len(cands) == 1:
                    return cands[0]
        pol = self.policy
        if pol == 'run_to_block':
            if me in cands:
                return me
            return cands[self.sched_rng.randrange(len(cands))]
        if pol == 'rr':
            cands = sorted(cands, key=lambda t: t.tid)
            for t in cands:
                if t.tid > self.rr_last:
                    self.rr_last = t.tid
                    return t
            self.rr_last = cands[0].tid
            return cands[0]
        if pol == 'prio':
            if self.sched_rng.random() < 0.05:
                for t in cands:
                    t.prio = self.sched_rng.random()
            return max(cands, key=lambda t: t.prio)
        return cands[self.sched_rng.randrange(len(cands))]

    def _schedule(self, me):
        """Run events / advance time until some task is ready; return it."""
        while True:
            self._run_due()
            cands = [t for t in self.tasks if self._ready(t)]
            if cands:
                return self._pick(cands, me)
            nxt = self.heap[0][0] if self.heap else None
            for t in self.tasks:
                if t.alive and t.started and t.deadline is not None:
                    if nxt is None or t.deadline < nxt:
                        nxt = t.deadline
            if nxt is None:
                self.abort('HANG')
            if nxt > self.max_vtime:
                self.abort('VTIME_EXCEEDED')
            if nxt > self.now:
                self.now = nxt

    def block(self, pred=None, timeout_us=None):
        """Yield point.  Returns True if pred holds (or pred is None), False on timeout."""
        me = self._tls.task
        me.pred = pred
        me.deadline = None if timeout_us is None else self.now + int(timeout_us)
        nxt = self._schedule(me)
        if nxt is not me:
            self._switch(me, nxt)
        ok = True if pred is None else bool(pred())
        me.pred = None
        me.deadline = None
        return ok

    def _switch(self, me, nxt):
        self.switches += 1
        if len(self.sched_trace) < 4096:
            self.sched_trace.append(nxt.tid)
        self.current = nxt
        nxt.sem.release()
        if me is not None:
            me.sem.acquire()
            if self.outcome is not None and self.current is not me:
                raise SimAbort(self.outcome)

    def yield_point(self):
        self.tick()
        self.block(None, None)

    def sleep(self, us):
        target = self.now + int(us)
        self.block(lambda: self.now >= target, us)
        if self.now < target:
            self.now = target

    # line-level pre-emption ---------------------------------------------------
    def tracer(self):
        """A sys.settrace function for one task's thread (None when pre-emption is off)."""
        if not self.preempt_p or not self.preempt_prefix:
            return None
        prefix = self.preempt_prefix
        k = self
        after_store = self.preempt_mode == 'store'
        pending = [False]   # this thread's previous line wrote to an attribute / global / item

        def local(frame, event, arg):
            if event == 'line' and k.outcome is None:
                # computation takes (virtual) time too: 1 us per 16 lines, so that other tasks' I/O completes while this one computes
                k.lines += 1
                if not k.lines & 15:
                    k.now += 1
                if after_store:
                    was, pending[0] = pending[0], frame.f_lineno in _store_lines(frame.f_code)
                    if not was:
                        return local
                if k.lines >= k.no_preempt_until and k.preempt_rng.random() < k.preempt_p:
                    k.preempt()
            return local

        def glob(frame, event, arg):
            if event == 'call' and frame.f_code.co_filename.startswith(prefix):
                return local
            return None
        return glob

    def preempt(self):
        """Involuntary switch: hand the baton to *another* ready task (whatever the policy), if there is one."""
        me = self._tls.task
        self._run_due()
        others = [t for t in self.tasks if t is not me and self._ready(t)]
        if not others:
            return
        self.preemptions += 1
        self.no_preempt_until = self.lines + self.preempt_rng.choice(self.preempt_stretch)
        nxt = others[self.preempt_rng.randrange(len(others))]
        me.pred, me.deadline = None, None
        self._switch(me, nxt)

    # thread lifecycle (used by the executor model) ---------------------------
    def spawn(self, name, fn):
        """Create a task backed by a real thread.  It starts parked; it runs only when scheduled."""
        task = self.new_task(name)

        def boot():
            task.sem.acquire()
            self._tls.task = task
            tr = self.tracer()
            if tr is not None:
                import sys
                sys.settrace(tr)
            try:
                fn()
            except SimAbort:
                return
            finally:
                pass
            self.task_exit()

        th = threading.Thread(target=boot, name='sim-' + name, daemon=True)
        th.start()
        task.started = True
        return task

    def task_exit(self):
        me = self._tls.task
        me.alive = False
        me.pred = None
        me.deadline = None
        nxt = self._schedule(None)
        self.switches += 1
        if len(self.sched_trace) < 4096:
            self.sched_trace.append(nxt.tid)
        self.current = nxt
        nxt.sem.release()

    # ------------------------------------------------------------------ end of run
    def abort(self, outcome):
        self.outcome = outcome
        if self.abort_handler is not None:
            self.abort_handler(outcome)
        raise SimAbort(outcome)
