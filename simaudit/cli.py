"""Command interface: ./check <Cxx> [--tier quick|thorough] | replay <file> | setup | selftest <what> | anchors"""
import argparse
import os
import sys


def main(argv=None):
    ap = argparse.ArgumentParser(prog='check')
    ap.add_argument('what')
    ap.add_argument('arg', nargs='?')
    ap.add_argument('--tier', default=os.environ.get('VERIF_TIER', 'quick'), choices=['quick', 'thorough'])
    ap.add_argument('--jobs', type=int, default=int(os.environ.get('VERIF_JOBS', '16')))
    ap.add_argument('--seed', type=int, default=int(os.environ.get('VERIF_SEED', '1')))
    ap.add_argument('--budget', type=float, default=None)
    a = ap.parse_args(argv)
    from . import engine
    if a.what == 'replay':
        return engine.replay(a.arg)
    if a.what == 'setup':
        from . import selftest
        return selftest.setup(a.jobs)
    if a.what == 'selftest':
        from . import selftest
        return selftest.run(a.arg, a.tier, a.jobs, a.seed)
    if a.what == 'anchors':
        from . import selftest
        return selftest.anchors()
    if not (len(a.what) >= 3 and a.what[0] == 'C' and a.what[1:].isdigit()):
        ap.error('unknown command %r' % a.what)
    try:
        return engine.check(a.what, a.tier, a.seed, a.jobs, a.budget)
    except engine.HarnessError as e:
        print('HARNESS-ERROR property=%s: %s' % (a.what, e))
        return 2


if __name__ == '__main__':
    try:
        rc = main()
    except SystemExit:
        raise
    except BaseException:
        import traceback
        print('HARNESS-ERROR: %s' % traceback.format_exc())
        rc = 2
    sys.stdout.flush()
    sys.exit(rc)
