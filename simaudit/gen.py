"""Common workload generators: name pools, archetype peers, swarm-style network/scheduler knobs."""
import base64
import copy

from .kernel import subrng

CATS = ('kex', 'key', 'enc', 'mac')
RSA_FAMILY = ('ssh-rsa', 'rsa-sha2-256', 'rsa-sha2-512')
GEX = ('diffie-hellman-group-exchange-sha1', 'diffie-hellman-group-exchange-sha256')
PROBE_KEX = ('diffie-hellman-group1-sha1', 'diffie-hellman-group14-sha1', 'diffie-hellman-group14-sha256', 'curve25519-sha256',
             'curve25519-sha256@libssh.org', 'diffie-hellman-group16-sha512', 'diffie-hellman-group18-sha512',
             'diffie-hellman-group-exchange-sha1', 'diffie-hellman-group-exchange-sha256', 'ecdh-sha2-nistp256', 'ecdh-sha2-nistp384',
             'ecdh-sha2-nistp521')
CHEAP_PROBE_KEX = ('curve25519-sha256', 'curve25519-sha256@libssh.org', 'ecdh-sha2-nistp256', 'ecdh-sha2-nistp384', 'ecdh-sha2-nistp521')
# host-key algorithms the tool probes (and for which the peer model can build a blob)
KEY_SPECS = {
    'ssh-rsa': lambda bits: {'type': 'ssh-rsa', 'bits': bits},
    'ssh-ed25519': lambda bits: {'type': 'ssh-ed25519'},
    'ssh-ed448': lambda bits: {'type': 'ssh-ed448'},
    'ecdsa-sha2-nistp256': lambda bits: {'type': 'ecdsa-sha2-nistp256'},
    'ecdsa-sha2-nistp384': lambda bits: {'type': 'ecdsa-sha2-nistp384'},
    'ecdsa-sha2-nistp521': lambda bits: {'type': 'ecdsa-sha2-nistp521'},
    'ssh-dss': lambda bits: {'type': 'ssh-dss', 'bits': 1024},
}

_db = None


def db():
    """The rating database of the tree under test, read as data."""
    global _db
    if _db is None:
        from ssh_audit.ssh2_kexdb import SSH2_KexDB
        from ssh_audit.ssh1_kexdb import SSH1_KexDB
        _db = {'ssh2': copy.deepcopy(SSH2_KexDB.MASTER_DB), 'ssh1': copy.deepcopy(SSH1_KexDB.MASTER_DB)}
    return _db


def db_names(cat):
    return list(db()['ssh2'][cat].keys())


def b64suffix(rng, n=16, force_chars=False):
    raw = bytes(rng.getrandbits(8) for _ in range(n))
    s = base64.b64encode(raw).decode()
    if force_chars and len(s) >= 12:
        # base64-shaped, and guaranteed to contain '+', '/' and '='
        s = s[:2] + '+' + s[3:6] + '/' + s[7:-2] + '=='
    return s


def gss_name(rng, prefix=None, force_chars=False):
    prefixes = [n[:-2] for n in db_names('kex') if n.startswith('gss-') and n.endswith('-*')]
    p = prefix or rng.choice(prefixes)
    return '%s-%s' % (p, b64suffix(rng, rng.choice([12, 16, 16, 24]), force_chars))


def unknown_name(rng, cat):
    shapes = {
        'kex': ['made-up-kex-%d@example.com', 'diffie-hellman-group%d-sha3', 'curve%d-sha256'],
        'key': ['ssh-made-up-%d', 'x509v3-sign-rsa-%d@example.com', 'ecdsa-sha2-brainpool%d'],
        'enc': ['aes%d-xyz', 'cipher%d@example.com', 'twofish%d-ofb'],
        'mac': ['hmac-sha3-%d', 'mac%d@example.com', 'hmac-blake%d'],
    }
    return rng.choice(shapes[cat]) % rng.randrange(1, 10000)


def shaped_unknown(rng, shape):
    """Unknown names with Terrapin-relevant shapes."""
    n = rng.randrange(100, 999)
    if shape == 'cbc':
        return rng.choice(['newcipher%d-cbc', 'foo%d-cbc@openssh.org', 'bar%d-cbc@ssh.com']) % n
    if shape == 'etm':
        return 'hmac-new%d-etm@openssh.com' % n
    if shape == 'chacha':
        return rng.choice(['chacha20-poly1305-v%d@example.com', 'chacha20-poly1305%d']) % n
    raise ValueError(shape)


def nonutf8_name(rng):
    return 'hex:' + (b'bad-' + bytes([rng.choice([0xff, 0xfe, 0xc0, 0x80, 0xe9])]) + b'-name%d' % rng.randrange(100)).hex()


def long_name(rng, n=None):
    n = n or rng.choice([200, 1000, 4096])
    return 'x' * (n - 12) + '@example.com'


def rand_list(rng, cat, maxlen=12, allow_odd=True):
    """A seeded name-list for one category.  allow_odd admits unknown/long/non-UTF-8/duplicate/empty entries."""
    pool = db_names(cat)
    if cat == 'kex':
        pool = [n for n in pool if not n.endswith('-*')]
    k = rng.choice([0, 1, 1, 2, 3, 5, 8, maxlen]) if allow_odd else rng.randrange(1, maxlen + 1)
    k = min(k, maxlen)
    out = []
    for _ in range(k):
        r = rng.random()
        if not allow_odd or r < 0.72:
            out.append(rng.choice(pool))
        elif r < 0.82:
            out.append(unknown_name(rng, cat))
        elif r < 0.88 and cat == 'kex':
            out.append(gss_name(rng, force_chars=rng.random() < 0.5))
        elif r < 0.91:
            out.append(long_name(rng, rng.choice([200, 1000])))
        elif r < 0.94:
            out.append(nonutf8_name(rng))
        elif r < 0.97 and out:
            out.append(rng.choice(out))     # duplicate
        else:
            out.append(rng.choice(pool))
    return out


def rand_net(rng, inside_lines=None, faults=True):
    """Swarm-style delivery schedule: one latency regime, one segmentation policy."""
    net = {'rtt_us': rng.choice([40, 200, 1000, 8000, 60000, 200000]), 'jitter_us': rng.choice([0, 0, 50, 2000])}
    mode = rng.choice(['msg', 'msg', 'mss', 'rand', 'byte'])
    if inside_lines is None:
        inside_lines = rng.random() < 0.5
    seg = {'mode': mode, 'banner_atomic': not inside_lines}
    if mode == 'mss':
        seg['mss'] = rng.choice([1, 2, 3, 4, 5, 7, 8, 16, 64, 536, 1460])
    if mode == 'rand':
        seg['cuts'] = rng.choice([1, 2, 3, 8])
    net['seg'] = seg
    net['gap_us'] = rng.choice([0, 0, 30, 500, 20000])
    if faults and rng.random() < 0.15:
        net['eagain'] = rng.choice([1, 2, 5])
    return net


def rand_sched(rng, preempt=False):
    sc = {'policy': rng.choice(['random', 'random', 'rr', 'run_to_block', 'prio']), 'seed': rng.getrandbits(32)}
    if preempt:
        # worker threads are additionally pre-empted at line events of the code under test
        sc['preempt_p'] = rng.choice([1 / 64.0, 1 / 32.0, 1 / 16.0])
        # after a switch the task switched to may get a stretch of lines to itself: a race whose other half is far away in the
        # other task (its next insertion into a shared table, say) needs a long one, a two-line window a short one
        sc['preempt_stretch'] = rng.choice([[0], [0], [0, 400], [40, 4000], [400, 4000, 40000]])
        if rng.random() < 0.5:
            # aimed at shared state: only the line after a write to an attribute / global / item, the other task then runs a while
            sc['preempt_mode'] = 'store'
            # (measured on a two-line window in a seeded race: short stretches find it in 6-10 % of the runs, long ones in 0.3 %)
            sc['preempt_p'] = rng.choice([1 / 16.0, 1 / 4.0, 1.0])
            sc['preempt_stretch'] = [rng.choice([0, 10, 40]), rng.choice([10, 40, 400])]
    return sc


def rand_knobs(rng):
    kn = {'cpu_cost': rng.choice([[1, 5], [1, 50], [10, 200]])}
    if rng.random() < 0.1:
        kn['dh_exponent'] = 'full'
    r = rng.random()
    if r < 0.04:
        kn['urandom'] = 'zeros'      # legal, if unlikely, outcomes of the system's randomness
    elif r < 0.08:
        kn['urandom'] = 'ones'
    if rng.random() < 0.25:
        # a send buffer that takes only so much per send() call: larger writes are short (the remainder is the caller's to send)
        kn['sndbuf'] = rng.choice([1, 64, 1000, 4096, 16384])
    return kn


# ---------------------------------------------------------------------------------------- archetypes
MODERN_OPENSSH = {
    'banner': 'SSH-2.0-OpenSSH_9.6',
    'kex': ['sntrup761x25519-sha512@openssh.com', 'curve25519-sha256', 'curve25519-sha256@libssh.org', 'ecdh-sha2-nistp256', 'ecdh-sha2-nistp384',
            'ecdh-sha2-nistp521', 'diffie-hellman-group-exchange-sha256', 'diffie-hellman-group16-sha512', 'diffie-hellman-group18-sha512',
            'diffie-hellman-group14-sha256', 'ext-info-s', 'kex-strict-s-v00@openssh.com'],
    'key': ['rsa-sha2-512', 'rsa-sha2-256', 'ecdsa-sha2-nistp256', 'ssh-ed25519'],
    'enc': ['chacha20-poly1305@openssh.com', 'aes128-ctr', 'aes192-ctr', 'aes256-ctr', 'aes128-gcm@openssh.com', 'aes256-gcm@openssh.com'],
    'mac': ['umac-64-etm@openssh.com', 'umac-128-etm@openssh.com', 'hmac-sha2-256-etm@openssh.com', 'hmac-sha2-512-etm@openssh.com',
            'hmac-sha1-etm@openssh.com', 'umac-64@openssh.com', 'umac-128@openssh.com', 'hmac-sha2-256', 'hmac-sha2-512', 'hmac-sha1'],
    'comp': ['none', 'zlib@openssh.com'],
    'keys': {'ssh-rsa': {'bits': 3072}, 'ecdsa-sha2-nistp256': {}, 'ssh-ed25519': {}},
    'gex': {'sizes': [2048, 3072, 4096, 6144, 7680, 8192], 'style': 'openssh', 'grp_min': 2048},
}

HARDENED = {
    'banner': 'SSH-2.0-OpenSSH_9.6',
    'kex': ['sntrup761x25519-sha512@openssh.com', 'curve25519-sha256', 'curve25519-sha256@libssh.org', 'diffie-hellman-group16-sha512',
            'diffie-hellman-group18-sha512', 'diffie-hellman-group-exchange-sha256', 'ext-info-s', 'kex-strict-s-v00@openssh.com'],
    'key': ['rsa-sha2-512', 'rsa-sha2-256', 'ssh-ed25519'],
    'enc': ['aes256-gcm@openssh.com', 'aes256-ctr', 'aes192-ctr', 'aes128-gcm@openssh.com', 'aes128-ctr'],
    'mac': ['hmac-sha2-256-etm@openssh.com', 'hmac-sha2-512-etm@openssh.com', 'umac-128-etm@openssh.com'],
    'comp': ['none', 'zlib@openssh.com'],
    'keys': {'ssh-rsa': {'bits': 4096}, 'ssh-ed25519': {}},
    'gex': {'sizes': [3072, 4096, 6144, 8192], 'style': 'openssh', 'grp_min': 2048},
}

OLD_OPENSSH = {
    'banner': 'SSH-2.0-OpenSSH_5.6',
    'kex': ['diffie-hellman-group-exchange-sha256', 'diffie-hellman-group-exchange-sha1', 'diffie-hellman-group14-sha1', 'diffie-hellman-group1-sha1'],
    'key': ['ssh-rsa', 'ssh-dss'],
    'enc': ['aes128-ctr', 'aes192-ctr', 'aes256-ctr', 'arcfour256', 'arcfour128', 'aes128-cbc', '3des-cbc', 'blowfish-cbc', 'cast128-cbc', 'aes192-cbc',
            'aes256-cbc', 'arcfour', 'rijndael-cbc@lysator.liu.se'],
    'mac': ['hmac-md5', 'hmac-sha1', 'umac-64@openssh.com', 'hmac-ripemd160', 'hmac-ripemd160@openssh.com', 'hmac-sha1-96', 'hmac-md5-96'],
    'comp': ['none', 'zlib@openssh.com'],
    'keys': {'ssh-rsa': {'bits': 1024}, 'ssh-dss': {}},
    'gex': {'sizes': [1024, 1536, 2048], 'style': 'openssh', 'grp_min': 1024},
}

DROPBEAR = {
    'banner': 'SSH-2.0-dropbear_2019.78',
    'kex': ['curve25519-sha256', 'curve25519-sha256@libssh.org', 'ecdh-sha2-nistp521', 'ecdh-sha2-nistp384', 'ecdh-sha2-nistp256',
            'diffie-hellman-group14-sha256', 'diffie-hellman-group14-sha1', 'kexguess2@matt.ucc.asn.au'],
    'key': ['ecdsa-sha2-nistp256', 'ssh-rsa', 'ssh-dss'],
    'enc': ['aes128-ctr', 'aes256-ctr', 'aes128-cbc', 'aes256-cbc', '3des-ctr', '3des-cbc'],
    'mac': ['hmac-sha1-96', 'hmac-sha1', 'hmac-sha2-256'],
    'comp': ['zlib@openssh.com', 'none'],
    'keys': {'ssh-rsa': {'bits': 2048}, 'ecdsa-sha2-nistp256': {}, 'ssh-dss': {}},
}

TINYSSH = {
    'banner': 'SSH-2.0-tinyssh_noversion abc',
    'kex': ['curve25519-sha256', 'curve25519-sha256@libssh.org', 'sntrup4591761x25519-sha512@tinyssh.org'],
    'key': ['ssh-ed25519'], 'enc': ['chacha20-poly1305@openssh.com'], 'mac': ['hmac-sha2-256'], 'comp': ['none'],
    'keys': {'ssh-ed25519': {}},
}

ARCHETYPES = {'modern': MODERN_OPENSSH, 'hardened': HARDENED, 'old': OLD_OPENSSH, 'dropbear': DROPBEAR, 'tinyssh': TINYSSH}


def archetype(name):
    return copy.deepcopy(ARCHETYPES[name])


def rand_keys(rng, key_list, cheap=True):
    """Key material for every probe-able algorithm in key_list."""
    keys = {}
    fam_done = False
    for alg in key_list:
        if alg in RSA_FAMILY:
            if not fam_done:
                keys['ssh-rsa'] = {'bits': rng.choice([1024, 2048, 3072, 4096])}
                fam_done = True
        elif alg in KEY_SPECS:
            keys[alg] = {}
        elif alg in ('ssh-rsa-cert-v01@openssh.com', 'rsa-sha2-256-cert-v01@openssh.com', 'rsa-sha2-512-cert-v01@openssh.com'):
            ct = rng.choice(['ssh-rsa', 'ssh-ed25519', 'ecdsa-sha2-nistp256'])
            keys['ssh-rsa-cert-v01@openssh.com'] = {'bits': rng.choice([1024, 2048, 3072]), 'ca_type': ct, 'ca_bits': rng.choice([1024, 2048, 3072, 4096])}
        elif alg == 'ssh-ed25519-cert-v01@openssh.com':
            ct = rng.choice(['ssh-rsa', 'ssh-ed25519'])
            keys[alg] = {'ca_type': ct, 'ca_bits': rng.choice([1024, 2048, 3072, 4096])}
    return keys


def rand_profile(rng, allow_odd=True, banner=None, cheap_probe=True, with_keys=True):
    """A seeded server profile.  c2s lists equal s2c lists."""
    p = {'banner': banner or rng.choice(['SSH-2.0-OpenSSH_9.6', 'SSH-2.0-OpenSSH_7.4', 'SSH-2.0-OpenSSH_8.9p1 Ubuntu-3', 'SSH-2.0-dropbear_2020.81',
                                         'SSH-2.0-libssh_0.9.6', 'SSH-2.0-Unknown_1.0', 'SSH-2.0-OpenSSH_6.6.1p1'])}
    for cat in CATS:
        p[cat] = rand_list(rng, cat, allow_odd=allow_odd)
    if cheap_probe and p['kex']:
        # keep the probe phase cheap: if any probe-able kex is present make sure a cheap one precedes the DH groups
        if any(x in PROBE_KEX for x in p['kex']) and not any(x in CHEAP_PROBE_KEX for x in p['kex'][:1]):
            if rng.random() < 0.9:
                p['kex'].insert(0, rng.choice(CHEAP_PROBE_KEX[:2]))
    p['comp'] = rng.choice([['none'], ['none', 'zlib@openssh.com'], ['zlib@openssh.com', 'none'], ['none', 'zlib'], ['zlib']])
    if with_keys:
        p['keys'] = rand_keys(rng, p['key'])
    if any(g in p['kex'] for g in GEX):
        p['gex'] = {'sizes': sorted(rng.sample([1024, 1536, 2048, 3072, 4096], rng.randrange(1, 4))), 'style': rng.choice(['strict', 'roundup', 'openssh']),
                    'grp_min': rng.choice([1024, 2048])}
    return p


def server_plan(seed, argv, profile, host='srv.example', ip='192.0.2.10', port=22, net=None, sched=None, knobs=None, faults=None, extra_hosts=None):
    hosts = {host: {'answers': [[4, ip]]}}
    if extra_hosts:
        hosts.update(extra_hosts)
    srv = {'ip': ip, 'port': port, 'profile': profile}
    if faults:
        srv['faults'] = faults
    plan = {'seed': seed, 'argv': argv, 'world': {'hosts': hosts, 'servers': [srv]}, 'net': net or {'rtt_us': 200}}
    if sched:
        plan['sched'] = sched
    if knobs:
        plan['knobs'] = knobs
    return plan


def client_plan(seed, argv, profile, port=2222, net=None, at_us=1500, knobs=None, faults=None, family=4):
    to = ['0.0.0.0', port] if family == 4 else ['::', port]
    cl = {'to': to, 'at_us': at_us, 'profile': profile, 'retry_us': 200000, 'from': ['198.51.100.7', 50022] if family == 4 else ['2001:db8::7', 50022]}
    if faults:
        cl['faults'] = faults
    plan = {'seed': seed, 'argv': argv, 'world': {'hosts': {}, 'clients': [cl]}, 'net': net or {'rtt_us': 200}}
    if knobs:
        plan['knobs'] = knobs
    return plan


def case_rng(seed, pid, *idx):
    return subrng(seed, pid, *idx)
