"""setup / selftests: interpreter sanity, fidelity anchors, determinism."""
import os
import sys


def anchors():
    from . import runner, anchors as A
    runner.prepare()
    bad = 0
    res = A.check_all(runner.REPO, runner.run_forked)
    for name, jm, ok, detail in res:
        if not ok:
            bad += 1
            print('ANCHOR-MISMATCH %s %s: %s' % (name, 'json' if jm else 'text', detail))
    print('fidelity anchors: %d/%d recorded real-server results reproduced byte for byte' % (len(res) - bad, len(res)))
    return 0 if bad == 0 else 2


def determinism(n=40, jobs=8):
    """Same plan -> same event-log digest and output: twice in this orchestrator and once in a fresh interpreter under another hash seed."""
    from . import runner, gen
    runner.prepare()
    bad = 0
    for i in range(n):
        rng = gen.case_rng(99, 'det', i)
        prof = gen.rand_profile(rng)
        plan = gen.server_plan(i, ['-n', '--skip-rate-test', 'srv.example:2222'], prof, port=2222, net=gen.rand_net(rng), knobs=gen.rand_knobs(rng))
        a = runner.run_forked(plan)
        b = runner.run_forked(plan)
        ok = (a.get('digest'), a.get('stdout'), a.get('status')) == (b.get('digest'), b.get('stdout'), b.get('status'))
        if ok and i % 8 == 0:
            c = runner.run_fresh(plan, hashseed=str(12345 + i))
            ok = (a.get('digest'), a.get('stdout'), a.get('status')) == (c.get('digest'), c.get('stdout'), c.get('status'))
            if not ok:
                print('NONDETERMINISM (fresh interpreter, other PYTHONHASHSEED) plan %d: %s' % (i, c.get('harness_error', '')[-500:]))
        if not ok:
            bad += 1
            print('NONDETERMINISM plan %d' % i)
    print('determinism: %d/%d plans identical across repeats' % (n - bad, n))
    return 0 if bad == 0 else 2


def setup(jobs=16):
    if sys.version_info < (3, 9):
        print('python too old')
        return 2
    rc = anchors()
    if rc:
        return rc
    rc = determinism(24)
    return rc or sync_seam(20)


def sync_seam(nseeds=40):
    """The synchronisation seam under the kernel: mutual exclusion, every seed twice with the same trace, several distinct
    interleavings over the seeds, lock-order inversion ends as HANG (not as a real-time hang), events / semaphores / conditions."""
    import os as _os
    r, w = _os.pipe()
    pid = _os.fork()
    if pid == 0:
        rc = 1
        try:
            _os.close(r)
            rc = _sync_child(nseeds)
        except BaseException:
            import traceback
            traceback.print_exc()
        finally:
            _os._exit(rc)
    _os.close(w)
    _, st = _os.waitpid(pid, 0)
    ok = _os.WIFEXITED(st) and _os.WEXITSTATUS(st) == 0
    print('synchronisation seam: %s' % ('ok' if ok else 'FAILED'))
    return 0 if ok else 2


def _sync_child(nseeds):
    from . import runner
    runner.prepare()
    from . import seams, sync
    from .kernel import Kernel, SimAbort

    class W:
        pass

    def world(seed, policy='random'):
        k = Kernel(seed, {'policy': policy, 'seed': seed})
        sync._counter[0] = 0        # creation ordinals name the objects in the event log; a real run starts from a fresh fork
        w = W()
        w.k = k
        seams.ACTIVE = w
        return k

    def counter_run(seed):
        k = world(seed)
        lock, ev, sem = sync.SimLock(), sync.SimEvent(), sync.SimSemaphore(2)
        cond = sync.SimCondition()
        state = {'n': 0, 'inside': 0, 'max_inside': 0, 'sem_inside': 0, 'sem_max': 0, 'items': [], 'got': []}
        trace = []

        def worker(i):
            ev.wait()
            for _ in range(4):
                with lock:
                    state['inside'] += 1
                    state['max_inside'] = max(state['max_inside'], state['inside'])
                    v = state['n']
                    k.yield_point()
                    state['n'] = v + 1
                    trace.append(i)
                    state['inside'] -= 1
                with sem:
                    state['sem_inside'] += 1
                    state['sem_max'] = max(state['sem_max'], state['sem_inside'])
                    k.yield_point()
                    state['sem_inside'] -= 1
            with cond:
                state['items'].append(i)
                cond.notify()

        def consumer():
            for _ in range(3):
                with cond:
                    cond.wait_for(lambda: state['items'])
                    state['got'].append(state['items'].pop(0))

        tasks = [k.spawn('w%d' % i, (lambda i=i: worker(i))) for i in range(3)] + [k.spawn('c', consumer)]
        k.yield_point()
        ev.set()
        k.block(lambda: all(not t.alive for t in tasks))
        assert state['n'] == 12 and state['max_inside'] == 1, state
        assert 1 <= state['sem_max'] <= 2, state
        assert sorted(state['got']) == [0, 1, 2], state
        seams.ACTIVE = None
        return tuple(trace), k.digest()

    traces = set()
    for seed in range(nseeds):
        a, b = counter_run(seed), counter_run(seed)
        assert a == b, 'seed %d: two runs differ' % seed
        traces.add(a[0])
    assert len(traces) >= nseeds // 4, 'only %d distinct interleavings over %d seeds' % (len(traces), nseeds)
    # lock-order inversion: both tasks end up waiting for the other's lock -> the kernel reports HANG
    hangs = 0
    for seed in range(nseeds):
        k = world(seed, 'rr')
        a, b = sync.SimLock(), sync.SimLock()
        outcome = []

        def on_abort(o, k=k):
            # the thread that noticed the hang is any task's thread: record the outcome and wake the main task, which then raises SimAbort
            outcome.append(o)
            k.tasks[0].sem.release()
        k.abort_handler = on_abort

        def t1():
            with a:
                k.yield_point()
                with b:
                    pass

        def t2():
            with b:
                k.yield_point()
                with a:
                    pass
        ts = [k.spawn('t1', t1), k.spawn('t2', t2)]
        try:
            k.block(lambda: all(not t.alive for t in ts))
        except SimAbort:
            pass
        if outcome == ['HANG']:
            hangs += 1
        else:
            assert not outcome, outcome
        seams.ACTIVE = None
    assert hangs >= 1, 'lock-order inversion never ended as HANG'
    # timeouts are virtual
    k = world(1)
    lk = sync.SimLock()
    lk.acquire()
    t0 = k.now
    assert lk.acquire(timeout=30) is False and 30_000_000 <= k.now - t0 < 31_000_000
    assert sync.SimEvent().wait(5) is False
    seams.ACTIVE = None
    # outside a run the objects behave like the real ones
    lk2 = sync.SimLock()
    assert lk2.acquire() and lk2.locked() and not lk2.acquire(False)
    lk2.release()
    print('  %d seeds x 2 identical, %d distinct interleavings, lock-order inversion ended as HANG in %d of %d schedules' % (nseeds, len(traces), hangs, nseeds))
    return 0


def run(what, tier, jobs, seed):
    if what == 'sync':
        return sync_seam(40 if tier == 'quick' else 400)
    if what == 'determinism':
        rc = determinism(100 if tier == 'quick' else 2000)
        return rc or determinism_campaigns(6 if tier == 'quick' else 40, jobs)
    if what == 'fidelity':
        return anchors()
    if what == 'sensitivity':
        return sensitivity(os.environ.get('VERIF_MUTANT'), tier, jobs)
    if what == 'seeded':
        return sensitivity(os.environ.get('VERIF_MUTANT'), tier, jobs, index='seeded/index.json')
    if what == 'conformance':
        from . import realpeer
        return realpeer.conformance()
    print('unknown selftest %r' % what)
    return 2


def _scratch_repo(tag):
    """Copy of the parts of /repo the harness needs (working tree, not HEAD)."""
    import shutil
    import subprocess
    from . import runner
    d = '/dev/shm/ssh-audit-verif-mut.%d.%s' % (os.getpid(), tag)
    shutil.rmtree(d, ignore_errors=True)
    os.makedirs(d)
    for item in ('src', 'ssh-audit.py', 'test'):
        src = os.path.join(runner.REPO, item)
        if os.path.isdir(src):
            shutil.copytree(src, os.path.join(d, item), ignore=shutil.ignore_patterns('__pycache__', '*.pyc'))
        else:
            shutil.copy(src, os.path.join(d, item))
    return d


def sensitivity(only=None, tier='quick', jobs=16, index='mutants/index.json', with_tests=False):
    """Apply each recorded breaking change to a scratch copy of the tree and require the property's check to report a violation."""
    import json
    import shutil
    import subprocess
    here = os.path.dirname(os.path.dirname(os.path.abspath(__file__)))
    with open(os.path.join(here, index)) as f:
        muts = json.load(f)['mutants']
    missed = 0
    results = []
    for i, m in enumerate(muts):
        if only and only not in (m['property'], os.path.basename(m['patch']), m.get('id')) and not os.path.basename(m['patch']).startswith(only):
            continue
        d = _scratch_repo(str(i))
        try:
            r = subprocess.run(['patch', '-p1', '-s', '-d', d, '-i', os.path.join(here, m['patch'])], capture_output=True, text=True)
            if r.returncode != 0:
                print('MUTANT-DOES-NOT-APPLY %s: %s' % (m['patch'], (r.stdout + r.stderr)[-300:]))
                missed += 1
                continue
            env = dict(os.environ, VERIF_REPO=d, VERIF_EVIDENCE_DIR=os.path.join(d, '_evidence'), VERIF_REPLAY_DIR=os.path.join(d, '_replays'))
            if with_tests:
                t = subprocess.run(['/venv/bin/python', '-m', 'pytest', '-q', '-x', '-p', 'no:cacheprovider', 'test'], cwd=d, capture_output=True, text=True, env=dict(os.environ, PYTHONPATH=os.path.join(d, 'src')))
                if t.returncode != 0:
                    print('note: the repository test suite fails with %s' % m['patch'])
            props = m['property'] if isinstance(m['property'], list) else [m['property']]
            caught = []
            for pid in props + m.get('also', []):
                r = subprocess.run([os.path.join(here, 'check'), pid, '--tier', m.get('tier', tier), '--jobs', str(jobs)], capture_output=True, text=True, env=env, cwd=here)
                if r.returncode == 1 and 'VIOLATION property=%s' % pid in r.stdout:
                    cls = [ln.strip() for ln in r.stdout.split('\n') if 'violation class' in ln][:2]
                    caught.append((pid, cls))
                elif r.returncode == 2:
                    print('  harness error while checking %s under %s: %s' % (pid, m['patch'], r.stdout[-400:]))
            results.append({'id': m.get('id'), 'why': m.get('why', ''), 'patch': m['patch'], 'property': m['property'], 'expect': m.get('expect', 'violation'), 'what': m.get('what', ''), 'origin': m.get('origin', ''),
                            'caught_by': [c[0] for c in caught], 'first_class': (caught[0][1][0].split('): ', 1)[-1] if caught and caught[0][1] else '')})
            if m.get('expect') == 'out_of_reach':
                print('%s %-34s (declared out of reach of simulation: %s)' % ('caught ' if caught else 'n/a    ', m.get('id') or os.path.basename(m['patch']), m.get('why', '')[:110]))
            elif m.get('expect') == 'equivalent':
                # a change that preserves the property must stay green: an alarm here would be a false alarm
                if caught:
                    missed += 1
                    print('FALSE-ALARM on property-preserving change %-30s by %s %s' % (os.path.basename(m['patch']), caught[0][0], caught[0][1][:1]))
                else:
                    print('green   %-34s (property-preserving: %s)' % (os.path.basename(m['patch']), m.get('why_equivalent', '')[:90]))
            elif caught:
                print('caught  %-34s by %s  %s' % (os.path.basename(m['patch']), ','.join(c[0] for c in caught), caught[0][1][0][:110] if caught[0][1] else ''))
            else:
                missed += 1
                print('MISSED  %-34s (expected %s)' % (os.path.basename(m['patch']), ','.join(props)))
        finally:
            shutil.rmtree(d, ignore_errors=True)
            _dump_results(results)      # after every entry: a long run that is cut short keeps what it has
    print('sensitivity: %d missed' % missed)
    _dump_results(results)
    return 0 if missed == 0 else 1


def _dump_results(results):
    import json
    outp = os.environ.get('VERIF_SENS_OUT')
    if outp:
        prev = []
        if os.path.exists(outp):
            prev = [r for r in json.load(open(outp)) if r['patch'] not in {x['patch'] for x in results}]
        json.dump(prev + results, open(outp + '.tmp', 'w'), indent=1)
        os.replace(outp + '.tmp', outp)


def case_digests(pid, n, jobs, seed=1, tier='quick', stride=1):
    """Digests (event logs + outputs + statuses of every invocation) of the first n cases of a campaign."""
    from . import engine, runner
    runner.prepare()
    camp = engine.load_campaign(pid)
    cases = []
    for i, c in enumerate(camp.cases(seed, tier)):
        if i % stride:
            continue
        c.setdefault('id', i)
        c.setdefault('seed', seed)
        cases.append(c)
        if len(cases) >= n:
            break
    res, _ = engine.run_cases(pid, cases, jobs)
    return [(r['id'], r['digest'], len(r.get('violations', [])), bool(r.get('harness_errors'))) for r in res]


def determinism_campaigns(n=6, jobs=16):
    """Every campaign: the same cases give the same digests when run twice here (16 workers), with 3 workers, and in a
    fresh interpreter under another PYTHONHASHSEED."""
    import json
    import subprocess
    here = os.path.dirname(os.path.dirname(os.path.abspath(__file__)))
    props = sorted(f[:-3] for f in os.listdir(os.path.join(here, 'simaudit', 'props')) if f.startswith('C') and f.endswith('.py'))
    bad = 0
    total = 0
    for pid in props:
        stride = 37
        a = case_digests(pid, n, jobs, stride=stride)
        b = case_digests(pid, n, 3, stride=stride)
        env = dict(os.environ, PYTHONHASHSEED='12345', PYTHONPATH=here)
        r = subprocess.run([sys.executable, '-c', 'import json,sys; from simaudit import selftest; print("DIGESTS" + json.dumps(selftest.case_digests(%r, %d, 5, stride=%d)))' % (pid, n, stride)],
                           capture_output=True, text=True, env=env, cwd=here)
        line = [ln for ln in r.stdout.split('\n') if ln.startswith('DIGESTS')]
        c = [tuple(x) for x in json.loads(line[0][7:])] if line else None
        total += len(a)
        if any(x[3] for x in a):
            print('determinism %s: harness error in a case' % pid)
            bad += 1
        if a != b or c is None or a != c:
            bad += 1
            diff = [x[0] for x, y in zip(a, b) if x != y] + ([x[0] for x, y in zip(a, c) if x != y] if c else ['fresh interpreter failed: ' + r.stderr[-300:]])
            print('NONDETERMINISM %s: cases %r' % (pid, diff[:6]))
    print('determinism over campaigns: %d properties, %d cases x 3 runs (16 workers / 3 workers / fresh interpreter with PYTHONHASHSEED=12345), %d mismatching' % (len(props), total, bad))
    return 0 if bad == 0 else 2
