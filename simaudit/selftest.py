"""setup / selftests: interpreter sanity, fidelity anchors, determinism."""
import os
import sys


def anchors():
    from . import runner, anchors as A
    runner.prepare()
    bad = 0
    res = A.check_all(runner.REPO, runner.run_forked)
    for name, jm, ok, detail in res:
        if not ok:
            bad += 1
            print('ANCHOR-MISMATCH %s %s: %s' % (name, 'json' if jm else 'text', detail))
    print('fidelity anchors: %d/%d recorded real-server results reproduced byte for byte' % (len(res) - bad, len(res)))
    return 0 if bad == 0 else 2


def determinism(n=40, jobs=8):
    """Same plan -> same event-log digest and output: twice in this orchestrator and once in a fresh interpreter under another hash seed."""
    from . import runner, gen
    runner.prepare()
    bad = 0
    for i in range(n):
        rng = gen.case_rng(99, 'det', i)
        prof = gen.rand_profile(rng)
        plan = gen.server_plan(i, ['-n', '--skip-rate-test', 'srv.example:2222'], prof, port=2222, net=gen.rand_net(rng), knobs=gen.rand_knobs(rng))
        a = runner.run_forked(plan)
        b = runner.run_forked(plan)
        ok = (a.get('digest'), a.get('stdout'), a.get('status')) == (b.get('digest'), b.get('stdout'), b.get('status'))
        if ok and i % 8 == 0:
            c = runner.run_fresh(plan, hashseed=str(12345 + i))
            ok = (a.get('digest'), a.get('stdout'), a.get('status')) == (c.get('digest'), c.get('stdout'), c.get('status'))
            if not ok:
                print('NONDETERMINISM (fresh interpreter, other PYTHONHASHSEED) plan %d: %s' % (i, c.get('harness_error', '')[-500:]))
        if not ok:
            bad += 1
            print('NONDETERMINISM plan %d' % i)
    print('determinism: %d/%d plans identical across repeats' % (n - bad, n))
    return 0 if bad == 0 else 2


def setup(jobs=16):
    if sys.version_info < (3, 9):
        print('python too old')
        return 2
    rc = anchors()
    if rc:
        return rc
    return determinism(24)


def run(what, tier, jobs, seed):
    if what == 'determinism':
        return determinism(200 if tier == 'quick' else 2000)
    if what == 'fidelity':
        return anchors()
    print('unknown selftest %r' % what)
    return 2
