"""Seams: every source of nondeterminism ssh-audit reaches through a stdlib module attribute is replaced
by a dispatcher.  Outside a simulated run the dispatchers forward to the real implementation."""
import concurrent.futures as _cf
import multiprocessing as _mp
import os
import random as _random
import select as _select
import socket as _socket
import threading as _threading
import time as _tm

from .kernel import SimUnsupported, subrng
from . import net as _net
from . import executor as _executor

ACTIVE = None        # the World of the running simulation (set in the forked child only)
_installed = False
REAL = {}


class _Rand:
    """State behind os.urandom / random.SystemRandom during a run."""

    def __init__(self, world, knobs):
        seed = world.plan.get('seed', 0)
        self.u = subrng(knobs.get('rand_seed', seed), 'urandom')
        self.s = subrng(knobs.get('rand_seed', seed), 'sysrandom')
        self.urandom_mode = knobs.get('urandom', 'seeded')
        self.exp_mode = knobs.get('dh_exponent', 'small')
        self.log = []


def _urandom(n):
    w = ACTIVE
    if w is None:
        return REAL['os.urandom'](n)
    r = w.rand
    if r.urandom_mode == 'zeros':
        return b'\x00' * n
    if r.urandom_mode == 'ones':
        return b'\xff' * n
    return bytes(r.u.getrandbits(8) for _ in range(n))


class SimSystemRandom(_random.Random):
    """random.SystemRandom stand-in.  Draws come from the run's seeded stream."""

    def __new__(cls, *a, **kw):
        if ACTIVE is None:
            return REAL['random.SystemRandom'](*a, **kw)
        return super().__new__(cls)

    def __init__(self, *a, **kw):
        pass

    def random(self):
        return ACTIVE.rand.s.random()

    def getrandbits(self, k):
        return ACTIVE.rand.s.getrandbits(k)

    def seed(self, *a, **kw):
        return None

    def randrange(self, start, stop=None, step=1):
        r = ACTIVE.rand
        if stop is None:
            start, stop = 0, start
        if stop <= start:
            raise ValueError('empty range for randrange() (%d, %d, %d)' % (start, stop, stop - start))
        if step != 1:
            raise SimUnsupported('randrange step')
        hi = stop
        if stop - start > (1 << 64):
            # a Diffie-Hellman exponent is being drawn: the modular exponentiation that follows is the one computation of the tool
            # whose cost the peer controls (through the size of the modulus).  Its CPU time is charged to the virtual clock as if a
            # full-size exponent had been drawn, whatever the size of the exponent actually handed out: about 1.8e-6 us x bits^3
            # (15 ms at 2048 bits, 1 s at 8192, 8 s at 16384 - measured for CPython's pow on this machine class)
            bits = stop.bit_length() + 1
            ACTIVE.k.now += int(1.8e-6 * bits * bits * bits)
        if r.exp_mode == 'small' and stop - start > (1 << 64):
            hi = start + (1 << 24)     # a legal (if unlikely) draw; keeps modular exponentiation cheap
        v = r.s.randrange(start, hi)
        if len(r.log) < 64:
            r.log.append(('randrange', start.bit_length(), stop.bit_length(), v if v < (1 << 64) else -1))
        ACTIVE.last_x = v
        return v

    def randint(self, a, b):
        return self.randrange(a, b + 1)


class SocketDispatch:
    """socket.socket stand-in: real sockets outside a run, SimSocket inside."""

    def __new__(cls, *a, **kw):
        if ACTIVE is None:
            return REAL['socket.socket'](*a, **kw)
        return _net.SimSocket(ACTIVE, *a, **kw)


def _getaddrinfo(*a, **kw):
    if ACTIVE is None:
        return REAL['socket.getaddrinfo'](*a, **kw)
    return ACTIVE.getaddrinfo(*a, **kw)


def _create_connection(address, timeout=None, source_address=None, **kw):
    if ACTIVE is None:
        return REAL['socket.create_connection'](address, timeout, source_address, **kw)
    host, port = address
    err = None
    for af, _st, _pr, _cn, sa in ACTIVE.getaddrinfo(host, port, 0, _net.SOCK_STREAM):
        s = _net.SimSocket(ACTIVE, af)
        try:
            if timeout is not None and timeout is not getattr(_socket, '_GLOBAL_DEFAULT_TIMEOUT', object()):
                s.settimeout(timeout)
            s.connect(sa)
            return s
        except OSError as e:
            err = e
            s.close()
    if err is not None:
        raise err
    raise OSError('getaddrinfo returns an empty list')


def _select_select(r, w, x, timeout=None):
    if ACTIVE is None:
        return REAL['select.select'](r, w, x, timeout)
    return _net.sim_select(ACTIVE, r, w, x, timeout)


def _time_time():
    if ACTIVE is None:
        return REAL['time.time']()
    ACTIVE.k.tick()
    return ACTIVE.k.wall()


def _monotonic():
    if ACTIVE is None:
        return REAL['time.monotonic']()
    ACTIVE.k.tick()
    return ACTIVE.k.now / 1_000_000.0


def _sleep(s):
    if ACTIVE is None:
        return REAL['time.sleep'](s)
    ACTIVE.k.record('tool', 'sleep', float(s))
    ACTIVE.k.sleep(int(float(s) * 1_000_000))
    return None


class ProcessTripwire:
    def __new__(cls, *a, **kw):
        if ACTIVE is None:
            return REAL['multiprocessing.Process'](*a, **kw)
        ACTIVE.tripwires.append('multiprocessing.Process')
        raise SimUnsupported('multiprocessing.Process inside a simulated run')


def _thread_start(self, *a, **kw):
    if ACTIVE is not None and not self.name.startswith('sim-'):
        raise SimUnsupported('raw threading.Thread %r inside a simulated run' % (self.name,))
    return REAL['threading.Thread.start'](self, *a, **kw)


class LazyExecutor:
    """A pool created by the code under test *outside* a run (a class attribute or module global, created when ssh_audit is imported,
    before the fork): whether it is a real pool or a simulated one is decided when it is first used.  Without this a pool kept in a
    class attribute would start real threads inside a run (a harness error, never a verdict)."""

    def __init__(self, a, kw):
        self._a, self._kw, self._inner, self._world = a, kw, None, None

    def _get(self):
        if self._inner is None or self._world is not ACTIVE:
            self._world = ACTIVE
            self._inner = REAL['cf.ThreadPoolExecutor'](*self._a, **self._kw) if ACTIVE is None else _executor.SimThreadPoolExecutor(ACTIVE, *self._a, **self._kw)
        return self._inner

    def submit(self, fn, /, *args, **kwargs):
        return self._get().submit(fn, *args, **kwargs)

    def map(self, fn, *iterables, **kw):
        return self._get().map(fn, *iterables, **kw)

    def shutdown(self, wait=True, **kw):
        if self._inner is not None:
            return self._inner.shutdown(wait=wait, **kw)
        return None

    def __enter__(self):
        return self

    def __exit__(self, exc_type, exc, tb):
        self.shutdown(wait=True)
        return False


class ExecutorDispatch:
    def __new__(cls, *a, **kw):
        if ACTIVE is None:
            from . import sync as _sync
            if _sync._from_tool(2):
                return LazyExecutor(a, kw)
            return REAL['cf.ThreadPoolExecutor'](*a, **kw)
        return _executor.SimThreadPoolExecutor(ACTIVE, *a, **kw)


def _as_completed(fs, timeout=None):
    if ACTIVE is None:
        return REAL['cf.as_completed'](fs, timeout)
    return _executor.sim_as_completed(ACTIVE, fs, timeout)


def _wait(fs, timeout=None, return_when='ALL_COMPLETED'):
    if ACTIVE is None:
        return REAL['cf.wait'](fs, timeout, return_when)
    return _executor.sim_wait(ACTIVE, fs, timeout, return_when)


def install():
    """Put the dispatchers in place.  Must run before ssh_audit is imported."""
    global _installed
    if _installed:
        return
    _installed = True
    REAL.update({
        'socket.socket': _socket.socket, 'socket.getaddrinfo': _socket.getaddrinfo,
        'socket.create_connection': _socket.create_connection, 'select.select': _select.select,
        'time.time': _tm.time, 'time.monotonic': _tm.monotonic, 'time.sleep': _tm.sleep,
        'time.perf_counter': _tm.perf_counter,
        'os.urandom': os.urandom, 'random.SystemRandom': _random.SystemRandom,
        'cf.ThreadPoolExecutor': _cf.ThreadPoolExecutor, 'cf.as_completed': _cf.as_completed, 'cf.wait': _cf.wait,
        'multiprocessing.Process': _mp.Process, 'threading.Thread.start': _threading.Thread.start,
    })
    _socket.socket = SocketDispatch
    _socket.getaddrinfo = _getaddrinfo
    _socket.create_connection = _create_connection
    _select.select = _select_select
    _tm.time = _time_time
    _tm.monotonic = _monotonic
    _tm.perf_counter = _monotonic
    _tm.sleep = _sleep
    os.urandom = _urandom
    _random.SystemRandom = SimSystemRandom
    _cf.ThreadPoolExecutor = ExecutorDispatch
    _cf.as_completed = _as_completed
    _cf.wait = _wait
    import concurrent.futures.thread as _cft
    _cft.ThreadPoolExecutor = ExecutorDispatch
    _mp.Process = ProcessTripwire
    _threading.Thread.start = _thread_start
    from . import sync as _sync
    _sync.install()


def activate(world, knobs):
    global ACTIVE
    world.rand = _Rand(world, knobs)
    world.last_x = None
    ACTIVE = world


def deactivate():
    global ACTIVE
    ACTIVE = None
