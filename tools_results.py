#!/venv/bin/python
"""Render seeded/RESULTS.md from the JSON written by `VERIF_SENS_OUT=... ./check selftest sensitivity|seeded`."""
import json
import os
import sys
HERE = os.path.dirname(os.path.abspath(__file__))
rows = []
for f in ('seeded/results_seeded.json', 'seeded/results_mutants.json'):
    p = os.path.join(HERE, f)
    if os.path.exists(p):
        rows += json.load(open(p))
out = ['# Which checks catch which breaking changes', '',
       'Produced by `VERIF_SENS_OUT=seeded/results_seeded.json ./check selftest seeded` and',
       '`VERIF_SENS_OUT=seeded/results_mutants.json ./check selftest sensitivity` (quick tier, seed 1): the working tree is copied to',
       '/dev/shm, one patch is applied, the property\'s quick check runs against the copy (`VERIF_REPO`).', '',
       '| change | origin | property | outcome | first violation class reported |', '|---|---|---|---|---|']
n = {'caught': 0, 'missed': 0, 'green': 0, 'false alarm': 0, 'not detected': 0}
for r in sorted(rows, key=lambda r: (str(r['property']), r['patch'])):
    prop = r['property'] if isinstance(r['property'], str) else 'all 18'
    if r['expect'] == 'out_of_reach':
        oc = 'caught' if r['caught_by'] else 'not detected'
    elif r['expect'] == 'equivalent':
        oc = 'false alarm' if r['caught_by'] else 'green'
    else:
        oc = 'caught' if r['caught_by'] else 'missed'
    n[oc] += 1
    origin = 'sub-agent (property text only)' if r['patch'].startswith('seeded/') else (r.get('origin') or '')
    out.append('| `%s` | %s | %s | **%s**%s | %s |' % (r['patch'], origin, prop, oc, (' (property-preserving change)' if r['expect'] == 'equivalent' else (' (declared out of reach: ' + r.get('why', '')[:120] + ')' if r['expect'] == 'out_of_reach' else '')), (r['first_class'] or r.get('what', ''))[:140].replace('|', '/')))
out += ['', 'Totals: %d breaking changes caught, %d missed, %d not detected because declared out of reach of the technique; %d property-preserving changes stayed green, %d false alarms.' % (n['caught'], n['missed'], n['not detected'], n['green'], n['false alarm'])]
open(os.path.join(HERE, 'seeded', 'RESULTS.md'), 'w').write('\n'.join(out) + '\n')
print(out[-1])
