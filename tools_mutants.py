#!/venv/bin/python
"""Generate hand-written mutants (small, compiling edits of ssh-audit) as patches under mutants/ from (file, old, new) edits."""
import json
import os
import shutil
import subprocess
import sys

HERE = os.path.dirname(os.path.abspath(__file__))
M = [
 # id, property, [(file, old, new)], what
 ('m-c01-readlist-drop-last', 'C01', [('src/ssh_audit/readbuf.py', "return self.read(list_size).decode('utf-8', 'replace').split(',')", "return self.read(list_size).decode('utf-8', 'replace').split(',')[:64]")], 'read_list keeps only the first 64 names'),
 ('m-c01-json-c2s', 'C01', [('src/ssh_audit/ssh_audit.py', "        for algorithm in kex.server.mac:\n            if len(algorithm.strip()) == 0:", "        for algorithm in kex.client.mac:\n            if len(algorithm.strip()) == 0:")], 'JSON MAC list built from the client-to-server list'),
 ('m-c01-dedupe', 'C01', [('src/ssh_audit/ssh_audit.py', "        for algorithm in algorithms:\n            program_retval = output_algorithm(", "        for algorithm in Utils.unique_seq(algorithms):\n            program_retval = output_algorithm(")], 'text report de-duplicates names'),
 ('m-c02-downgrade', 'C02', [('src/ssh_audit/ssh_audit.py', "        elif level == 'warn' and program_retval != exitcodes.FAILURE:", "        elif level == 'warn':")], 'a later warning downgrades an earlier failure'),
 ('m-c02-policy-status', 'C02', [('src/ssh_audit/ssh_audit.py', "program_retval = exitcodes.GOOD if evaluate_policy(out, aconf, banner, s.client_host, kex=kex) else exitcodes.FAILURE", "program_retval = exitcodes.GOOD if evaluate_policy(out, aconf, banner, s.client_host, kex=kex) else exitcodes.WARNING")], 'failed policy exits 2'),
 ('m-c02-err-good', 'C02', [('src/ssh_audit/ssh_audit.py', "    if err is not None:\n        output(out, aconf, banner, header)\n        out.fail(err)\n        return exitcodes.CONNECTION_ERROR", "    if err is not None:\n        output(out, aconf, banner, header)\n        out.fail(err)\n        return exitcodes.CONNECTION_ERROR if banner is None else exitcodes.GOOD")], 'failed KEXINIT after a good banner exits 0'),
 ('m-c04-marker-role', 'C04', [('src/ssh_audit/ssh_audit.py', "((client_audit and 'kex-strict-c-v00@openssh.com' in algs.ssh2kex.kex_algorithms) or (not client_audit and 'kex-strict-s-v00@openssh.com' in algs.ssh2kex.kex_algorithms))", "('kex-strict-c-v00@openssh.com' in algs.ssh2kex.kex_algorithms or 'kex-strict-s-v00@openssh.com' in algs.ssh2kex.kex_algorithms)")], 'marker check ignores the role'),
 ('m-c04-first-cbc', 'C04', [('src/ssh_audit/ssh_audit.py', "        for cipher in cbc_ciphers_enabled:\n            if kex_strict_marker:", "        for cipher in cbc_ciphers_enabled[:1]:\n            if kex_strict_marker:")], 'only the first CBC cipher is marked'),
 ('m-c04-etm-substring', 'C04', [('src/ssh_audit/ssh_audit.py', "                if mac.endswith(\"-etm@openssh.com\"):\n                    ret.append(mac)\n\n        return ret\n\n    def _get_etm_macs_not_enabled", "                if \"-etm\" in mac:\n                    ret.append(mac)\n\n        return ret\n\n    def _get_etm_macs_not_enabled")], 'ETM test by substring'),
 ('m-c04-chacha-exact', 'C04', [('src/ssh_audit/ssh_audit.py', "                if cipher.startswith(\"chacha20-poly1305\"):\n                    ret.append(cipher)\n\n        return ret\n\n    def _get_chacha_ciphers_not_enabled", "                if cipher == \"chacha20-poly1305@openssh.com\":\n                    ret.append(cipher)\n\n        return ret\n\n    def _get_chacha_ciphers_not_enabled")], 'ChaCha only by the exact @openssh.com name'),
 ('m-c05-omit-dh', 'C05', [('src/ssh_audit/policy.py', "            if kex.dh_modulus_sizes():\n", "            if kex.dh_modulus_sizes() and len(kex.dh_modulus_sizes()) > 1:\n")], 'create() omits a single dh_modulus_sizes entry'),
 ('m-c05-size-lt', 'C05', [('src/ssh_audit/policy.py', "(not self._allow_larger_keys and actual_hostkey_size != expected_hostkey_size)", "(not self._allow_larger_keys and actual_hostkey_size < expected_hostkey_size)")], 'exact host-key size compare only flags smaller keys'),
 ('m-c05-parser-last', 'C05', [('src/ssh_audit/policy.py', "                algs = [alg.strip() for alg in algs]\n", "                algs = [alg.strip() for alg in algs if alg.strip() != 'none']\n")], 'policy parser drops the name none from lists'),
 ('m-c06-subset-inverted', 'C06', [('src/ssh_audit/policy.py', "                for cipher_t in kex.server.encryption:\n                    if cipher_t not in self._ciphers:", "                for cipher_t in self._ciphers:\n                    if cipher_t not in kex.server.encryption:")], 'subset test inverted for ciphers'),
 ('m-c06-strict-exception', 'C06', [('src/ssh_audit/policy.py', "                if ('kex-strict-s-v00@openssh.com' in self._kex and 'kex-strict-s-v00@openssh.com' not in kex.kex_algorithms) or \\\n", "                if False and ('kex-strict-s-v00@openssh.com' in self._kex and 'kex-strict-s-v00@openssh.com' not in kex.kex_algorithms) or \\\n")], 'strict-kex server marker no longer mandatory under subset mode'),
 ('m-c06-larger-gt', 'C06', [('src/ssh_audit/policy.py', "(self._allow_larger_keys and actual_dh_modulus_size < expected_dh_modulus_size)", "(self._allow_larger_keys and actual_dh_modulus_size <= expected_dh_modulus_size)")], 'larger-keys mode rejects an equal modulus'),
 ('m-c06-optional-exact', 'C06', [('src/ssh_audit/policy.py', "            pruned_host_keys = [x for x in kex.key_algorithms if x not in self._optional_host_keys]", "            pruned_host_keys = [x for x in kex.key_algorithms if x not in self._optional_host_keys[1:]]")], 'first optional host key is not pruned'),
 ('m-c07-masterdb', 'C07', [('src/ssh_audit/ssh2_kexdb.py', "            SSH2_KexDB.DB_PER_THREAD[calling_thread_id] = copy.deepcopy(SSH2_KexDB.MASTER_DB)", "            SSH2_KexDB.DB_PER_THREAD[calling_thread_id] = copy.copy(SSH2_KexDB.MASTER_DB)")], 'per-thread database is a shallow copy'),
 ('m-c07-shared-aconf', 'C07', [('src/ssh_audit/ssh_audit.py', "        my_aconf = copy.deepcopy(shared_aconf)", "        my_aconf = copy.copy(shared_aconf)")], 'worker shares the policy object with the other workers'),
 ('m-c07-racy-global', 'C07', [('src/ssh_audit/ssh2_kexdb.py', "        return SSH2_KexDB.DB_PER_THREAD[calling_thread_id]", "        SSH2_KexDB._CURRENT = SSH2_KexDB.DB_PER_THREAD[calling_thread_id]  # type: ignore\n        return SSH2_KexDB._CURRENT  # type: ignore")], 'get_db() returns through a class-level temporary: a race only between two lines, with no simulated call in between (needs line-level pre-emption: thorough tier)'),
 ('m-c08-rank', 'C08', [('src/ssh_audit/ssh_audit.py', "ranked_return_codes = [exitcodes.GOOD, exitcodes.WARNING, exitcodes.FAILURE, exitcodes.CONNECTION_ERROR, exitcodes.UNKNOWN_ERROR]", "ranked_return_codes = [exitcodes.GOOD, exitcodes.WARNING, exitcodes.CONNECTION_ERROR, exitcodes.FAILURE, exitcodes.UNKNOWN_ERROR]")], 'rank list reordered'),
 ('m-c08-delim', 'C08', [('src/ssh_audit/ssh_audit.py', "                if num_processed < num_target_servers:", "                if num_processed < num_target_servers - 1:")], 'delimiter logic off by one'),
 ('m-c09-timeout-none', 'C09', [('src/ssh_audit/ssh_socket.py', "                s = socket.socket(af, socket.SOCK_STREAM)\n                s.settimeout(self.__timeout)", "                s = socket.socket(af, socket.SOCK_STREAM)\n                s.settimeout(None)")], 'no socket timeout on outgoing connections'),
 ('m-c09-retry-forever', 'C09', [('src/ssh_audit/ssh_socket.py', "        except socket.timeout:\n            return -1, 'timed out'", "        except socket.timeout:\n            return 0, 'retry'")], 'a read timeout is retried forever'),
 ('m-c09-kexparse', 'C09', [('src/ssh_audit/ssh_audit.py', "        except Exception:\n            out.fail(\"Failed to parse server's kex.  Stack trace:\\n%s\" % str(traceback.format_exc()))\n            return exitcodes.CONNECTION_ERROR", "        except KeyError:\n            out.fail(\"Failed to parse server's kex.  Stack trace:\\n%s\" % str(traceback.format_exc()))\n            return exitcodes.CONNECTION_ERROR")], 'KEXINIT parse errors no longer caught'),
 ('m-c10-pad3', 'C10', [('src/ssh_audit/ssh_socket.py', "        if padding < 4:\n            padding += 8", "        if padding < 3:\n            padding += 8")], 'minimum padding 3'),
 ('m-c10-plen', 'C10', [('src/ssh_audit/ssh_socket.py', "        padding = -(len(payload) + 5) % 8", "        padding = -(len(payload) + 4) % 8")], 'padding computed without the padding-length byte'),
 ('m-c10-probe-lang', 'C10', [('src/ssh_audit/gextest.py', "compressions=kex.server.compression, languages=kex.server.languages)", "compressions=kex.server.compression)")], 'GEX probe KEXINIT does not echo the language list'),
 ('m-c11-3071', 'C11', [('src/ssh_audit/hostkeytest.py', "                    hostkey_min_good = cakey_min_good = 3072", "                    hostkey_min_good = cakey_min_good = 3071")], 'good threshold 3071 (a 3071-bit key loses its warning; visible since C11 ranges over arbitrary sizes)'),
 ('m-c11-warn2047', 'C11', [('src/ssh_audit/hostkeytest.py', "                    hostkey_min_warn = cakey_min_warn = 2048", "                    hostkey_min_warn = cakey_min_warn = 2049")], '2048-bit keys rated as failures'),
 ('m-c11-fanout', 'C11', [('src/ssh_audit/hostkeytest.py', "                        db['key'][rsa_type][1].extend(key_fail_comments)\n                        db['key'][rsa_type][2].extend(key_warn_comments)", "                        if rsa_type == host_key_type:\n                            db['key'][rsa_type][1].extend(key_fail_comments)\n                            db['key'][rsa_type][2].extend(key_warn_comments)")], 'size notes only on the probed RSA name'),
 ('m-c11-fp-reply', 'C11', [('src/ssh_audit/ssh_audit.py', "                fp = Fingerprint(cast(bytes, host_keys[host_key_type]['raw_hostkey_bytes']))\n\n                # Workaround", "                fp = Fingerprint(cast(bytes, host_keys[host_key_type]['raw_hostkey_bytes'])[4:])\n\n                # Workaround")], 'text fingerprint over the blob minus its first length field'),
 ('m-c11-ca-skip', 'C11', [('src/ssh_audit/kexdh.py', "            # Another nonce.\n            nonce, nonce_len, ptr = KexDH.__get_bytes(hostkey, ptr)  # pylint: disable=unused-variable\n", "")], 'certificate parse skips one field less'),
 ('m-c12-early-exit', 'C12', [('src/ssh_audit/gextest.py', "                    if bits >= smallest_modulus > 0:", "                    if bits > smallest_modulus > 0:")], 'early exit off by one'),
 ('m-c12-second-pass-always', 'C12', [('src/ssh_audit/gextest.py', "if (smallest_modulus == 2048) and (banner is not None) and (banner.software is not None) and (banner.software.find('OpenSSH') != -1):", "if (smallest_modulus == 2048) and (banner is not None) and (banner.software is not None):")], 'second pass for every banner'),
 ('m-c12-threshold', 'C12', [('src/ssh_audit/gextest.py', "                    elif smallest_modulus < 3072:", "                    elif smallest_modulus <= 3072:")], '3072-bit modulus gets the 2048 warning'),
 ('m-c12-bytes', 'C12', [('src/ssh_audit/kexdh.py', "        return len(bin(self.__p)) - 2", "        return (len(bin(self.__p)) - 2 + 7) // 8 * 8 if len(bin(self.__p)) > 2 else 0")], 'modulus size rounded up to whole bytes (a 2047-bit modulus becomes a 2048-bit one and loses its failure; visible since C12 has moduli off the byte grid)'),
 ('m-c13-levels', 'C13', [('src/ssh_audit/ssh_audit.py', "                    if points >= 10:\n                        level = 'critical'", "                    if points > 10:\n                        level = 'critical'")], 'exactly one failure is not critical'),
 ('m-c13-cert', 'C13', [('src/ssh_audit/algorithms.py', "                           (alg_type == 'key' and (('-cert-' in n) or (n.startswith('sk-')))) or \\", "                           (alg_type == 'key' and (n.startswith('sk-'))) or \\")], 'certificate key types recommended for addition'),
 ('m-c13-version', 'C13', [('src/ssh_audit/algorithms.py', "                            if (software is not None) and (software.compare_version(ssh_version) < 0):\n                                continue", "                            if (software is not None) and (software.compare_version(ssh_version) < 0) and alg_type != 'mac':\n                                continue")], 'version filter skipped for MACs'),
 ('m-c14-patch-only', 'C14', [('src/ssh_audit/software.py', "            va = [int(x) for x in a.split('.')]\n            vb = [int(x) for x in b.split('.')]", "            va = [int(x) for x in a.split('.')][:2]\n            vb = [int(x) for x in b.split('.')][:2]")], 'only the first two components are compared'),
 ('m-c15-level-status', 'C15', [('src/ssh_audit/ssh_audit.py', "        if level == 'fail':\n            program_retval = exitcodes.FAILURE", "        if level == 'fail' and out.get_level(level) >= out.get_level(out.level):\n            program_retval = exitcodes.FAILURE")], 'no-op guard (equivalent mutant: expected to stay green)'),
 ('m-c15-unsorted', 'C15', [('src/ssh_audit/ssh_audit.py', "        out.flush_section(sort_section=True)  # Sort the output", "        out.flush_section(sort_section=False)  # Sort the output")], 'recommendations unsorted (order then depends on dict order only: expected to stay green unless a set is involved)'),
 ('m-c15-warn-hidden', 'C15', [('src/ssh_audit/outputbuffer.py', "        cname = 'info' if name == 'good' else name", "        cname = 'info' if name in ('good', 'warn') and self.batch else name")], 'in batch mode warnings are filtered like info lines'),
 ('m-c16-anchor', 'C16', [('src/ssh_audit/banner.py', "r'(-\\s*([^\\s]*)(?:\\s+(.*))?)?'", "r'(-\\s*([^\\s-]*)(?:[\\s-]+(.*))?)?'")], 'software token cut at the first minus sign'),
 ('m-c16-comments', 'C16', [('src/ssh_audit/banner.py', "            comments = re.sub(r'\\s+', ' ', comments)", "            comments = comments.split(' ')[0]")], 'only the first word of the comments is kept'),
 ('m-c16-header-order', 'C16', [('src/ssh_audit/ssh_socket.py', "                self.__header.append(line)", "                self.__header.insert(0, line)")], 'header lines reversed'),
 ('m-c18-default-port', 'C18', [('src/ssh_audit/utils.py', "            if port_str is not None:\n                port = int(port_str)", "            if port_str is not None and default_port == 22:\n                port = int(port_str)")], '-p overrides the port of a bracketed IPv6 target'),
 ('m-c18-sort', 'C18', [('src/ssh_audit/ssh_socket.py', "reverse=(self.__ip_version_preference[0] == 6))", "reverse=(self.__ip_version_preference[0] == 4))")], 'family order reversed'),
 ('m-c18-filter', 'C18', [('src/ssh_audit/dheat.py', "            family = socket.AF_INET if ip_version_preference[0] == 4 else socket.AF_INET6", "            family = socket.AF_UNSPEC")], 'rate test ignores -4 / -6'),
 ('m-c18-file-port', 'C18', [('src/ssh_audit/ssh_audit.py', "            host, port = Utils.parse_host_and_port(target, default_port=aconf.port)", "            host, port = Utils.parse_host_and_port(target)")], 'targets file ignores -p as the default port'),
 ('m-c19-no-close', 'C19', [('src/ssh_audit/gextest.py', "        finally:\n            s.close()\n", "        finally:\n            pass\n")], 'GEX probes never close their connection'),
 ('m-c19-maxconn', 'C19', [('src/ssh_audit/dheat.py', " and (num_attempted_connections < max_connections):", " and (num_attempted_connections < max_connections * 4):")], 'rate test attempts 4x the limit'),
 ('m-c19-concurrency', 'C19', [('src/ssh_audit/ssh_audit.py', "dh_rate_test_notes = DHEat.dh_rate_test(out, aconf, kex, 1.5, 38, 3)", "dh_rate_test_notes = DHEat.dh_rate_test(out, aconf, kex, 1.5, 38, 6)")], '6 concurrent sockets in the rate test'),
 ('m-c19-rate-when-skipped', 'C19', [('src/ssh_audit/ssh_audit.py', "                if aconf.skip_rate_test:", "                if aconf.skip_rate_test and aconf.policy is None:")], 'policy audits run the rate test although --skip-rate-test was given'),
 # ---- the accept side of a client audit (round 13)
 ('m-c09-accept-no-timeout', 'C09', [('src/ssh_audit/ssh_socket.py', "            if self.__timeout_set and time_elapsed >= self.__timeout:\n                print(\"Timeout elapsed.  Terminating...\")", "            if self.__timeout_set and time_elapsed >= self.__timeout and len(fds[0]) > 0:\n                print(\"Timeout elapsed.  Terminating...\")")], 'a client audit with -t waits for ever when no client connects (the give-up test can never be true)'),
 ('m-c09-bind-v6-fatal', 'C09', [('src/ssh_audit/ssh_socket.py', "            print(\"Warning: failed to listen on any IPv6 interfaces: %s\" % str(e), file=sys.stderr)\n", "            print(\"Warning: failed to listen on any IPv6 interfaces: %s\" % str(e), file=sys.stderr)\n            raise\n")], 'a host without IPv6 cannot audit clients at all: the bind failure is re-raised (status 255)'),
 # ---- synchronisation (round 12): the lock objects are simulator objects (simaudit/sync.py)
 ('m-c08-lock-leak', 'C08', [('src/ssh_audit/ssh2_kexdb.py', "    @staticmethod\n    def get_db() ->", "    _LOCK = threading.Lock()\n\n    @staticmethod\n    def get_db() ->"),
                              ('src/ssh_audit/ssh2_kexdb.py', "        if calling_thread_id not in SSH2_KexDB.DB_PER_THREAD:\n            SSH2_KexDB.DB_PER_THREAD[calling_thread_id] = copy.deepcopy(SSH2_KexDB.MASTER_DB)\n\n        return", "        SSH2_KexDB._LOCK.acquire()\n        if calling_thread_id not in SSH2_KexDB.DB_PER_THREAD:\n            SSH2_KexDB.DB_PER_THREAD[calling_thread_id] = copy.deepcopy(SSH2_KexDB.MASTER_DB)\n        SSH2_KexDB._LOCK.release()\n\n        return"),
                              ('src/ssh_audit/ssh2_kexdb.py', "        if calling_thread_id in SSH2_KexDB.DB_PER_THREAD:\n            del SSH2_KexDB.DB_PER_THREAD[calling_thread_id]", "        SSH2_KexDB._LOCK.acquire()\n        if calling_thread_id not in SSH2_KexDB.DB_PER_THREAD:\n            return\n        del SSH2_KexDB.DB_PER_THREAD[calling_thread_id]\n        SSH2_KexDB._LOCK.release()")],
  'the per-thread table is guarded by a lock that thread_exit() does not release when the worker never used the table (a target that failed before any rating): every later get_db() blocks for ever'),
 ('eq-lock', ['C01','C02','C03','C04','C05','C06','C07','C08','C09','C10','C11','C12','C13','C14','C15','C16','C18','C19'], [('src/ssh_audit/ssh2_kexdb.py', "    @staticmethod\n    def get_db() ->", "    _LOCK = threading.RLock()\n\n    @staticmethod\n    def get_db() ->"),
                     ('src/ssh_audit/ssh2_kexdb.py', "        if calling_thread_id not in SSH2_KexDB.DB_PER_THREAD:\n            SSH2_KexDB.DB_PER_THREAD[calling_thread_id] = copy.deepcopy(SSH2_KexDB.MASTER_DB)\n\n        return", "        with SSH2_KexDB._LOCK:\n            if calling_thread_id not in SSH2_KexDB.DB_PER_THREAD:\n                SSH2_KexDB.DB_PER_THREAD[calling_thread_id] = copy.deepcopy(SSH2_KexDB.MASTER_DB)\n\n        return"),
                     ('src/ssh_audit/ssh2_kexdb.py', "        if calling_thread_id in SSH2_KexDB.DB_PER_THREAD:\n            del SSH2_KexDB.DB_PER_THREAD[calling_thread_id]", "        with SSH2_KexDB._LOCK:\n            if calling_thread_id in SSH2_KexDB.DB_PER_THREAD:\n                del SSH2_KexDB.DB_PER_THREAD[calling_thread_id]")],
  'the per-thread table correctly guarded by a re-entrant lock'),
 # ---- property-preserving refactorings: every check must stay green on these
 ('eq-sendall', ['C01','C02','C03','C04','C05','C06','C07','C08','C09','C10','C11','C12','C13','C14','C15','C16','C18','C19'], [('src/ssh_audit/ssh_socket.py', "            while len(data) > 0:\n                sent = self.__sock.send(data)\n                if sent is None:  # A socket stand-in that reports no count has taken everything.\n                    break\n                data = data[sent:]\n            return 0, None", "            self.__sock.sendall(data)\n            return 0, None")], 'send loop -> sendall'),
 ('eq-create-connection', ['C01','C02','C03','C04','C05','C06','C07','C08','C09','C10','C11','C12','C13','C14','C15','C16','C18','C19'], [('src/ssh_audit/ssh_socket.py', "                s = socket.socket(af, socket.SOCK_STREAM)\n                s.settimeout(self.__timeout)\n", "                s = None\n"), ('src/ssh_audit/ssh_socket.py', "                s.connect(addr)\n                self.__sock = s", "                s = socket.create_connection((addr[0], addr[1]), self.__timeout)\n                self.__sock = s")], 'socket()+connect() -> socket.create_connection()'),
 ('eq-format-padding', ['C01','C02','C03','C04','C05','C06','C07','C08','C09','C10','C11','C12','C13','C14','C15','C16','C18','C19'], [('src/ssh_audit/ssh_audit.py', "        comment = (padding + ' -- [' + level + '] ' + text) if text != '' else ''", "        comment = (padding + '   -- [' + level + '] ' + text) if text != '' else ''"), ('src/ssh_audit/ssh_audit.py', "        out.head('# ' + title)", "        out.head('## ' + title.upper())")], 'wider padding and different section titles'),
 ('eq-recv-size', ['C01','C02','C03','C04','C05','C06','C07','C08','C09','C10','C11','C12','C13','C14','C15','C16','C18','C19'], [('src/ssh_audit/ssh_socket.py', "    def recv(self, size: int = 2048) -> Tuple[int, Optional[str]]:", "    def recv(self, size: int = 512) -> Tuple[int, Optional[str]]:")], 'smaller recv chunks'),
 ('eq-monotonic', ['C01','C02','C03','C04','C05','C06','C07','C08','C09','C10','C11','C12','C13','C14','C15','C16','C18','C19'], [('src/ssh_audit/dheat.py', "        start_timer = time.time()\n        now = start_timer\n        last_update = start_timer\n        while True:\n            now = time.time()", "        start_timer = time.monotonic()\n        now = start_timer\n        last_update = start_timer\n        while True:\n            now = time.monotonic()"), ('src/ssh_audit/dheat.py', "        time_elapsed = time.time() - start_timer\n        out.d(\"DHEat.dh_rate_test() results", "        time_elapsed = time.monotonic() - start_timer\n        out.d(\"DHEat.dh_rate_test() results")], 'rate test timed with time.monotonic'),
]


THOROUGH_ONLY = {'m-c07-racy-global'}     # races between two lines: found by line-level pre-emption, a thorough-tier matter

EQUIVALENT = {
 'm-c12-early-exit': 'only adds one redundant probe whose answer cannot be smaller for a monotone policy; the reported size is unchanged',
 'm-c13-version': 'no MAC can be recommended for addition (non-ETM MACs carry a warning, unadvertised ETM MACs are suppressed) and extra removals are allowed by the statement',
 'm-c15-level-status': 'the added guard is always true',
 'm-c15-unsorted': 'the recommendation lines are generated in a deterministic order either way',
 'm-c15-warn-hidden': 'in batch mode -l warn then filters nothing: the statement only forbids adding or altering lines',
 'eq-lock': 'correct locking adds yield points, nothing else',
 'eq-sendall': 'refactoring', 'eq-create-connection': 'refactoring', 'eq-format-padding': 'presentation only', 'eq-recv-size': 'refactoring', 'eq-monotonic': 'refactoring',
}


def main():
    d = '/dev/shm/mk-mutants'
    shutil.rmtree(d, ignore_errors=True)
    subprocess.check_call(['git', '-C', '/repo', 'worktree', 'add', '-q', '--detach', d, 'HEAD'])
    idxp = os.path.join(HERE, 'mutants', 'index.json')
    idx = json.load(open(idxp))
    idx['mutants'] = [m for m in idx['mutants'] if not os.path.basename(m['patch']).startswith(('m-', 'eq-'))]
    try:
        for mid, pid, edits, what in M:
            subprocess.check_call(['git', '-C', d, 'checkout', '-q', '--', '.'])
            ok = True
            for path, old, new in edits:
                p = os.path.join(d, path)
                s = open(p).read()
                if s.count(old) != 1:
                    print('SKIP %s: pattern occurs %d times in %s' % (mid, s.count(old), path))
                    ok = False
                    break
                open(p, 'w').write(s.replace(old, new))
            if not ok:
                continue
            r = subprocess.run(['/venv/bin/python', '-m', 'pytest', '-q', '-x', '-p', 'no:cacheprovider', 'test'], cwd=d, capture_output=True, text=True,
                               env=dict(os.environ, PYTHONPATH=os.path.join(d, 'src')))
            tests = 'pass' if r.returncode == 0 else 'FAIL'
            diff = subprocess.check_output(['git', '-C', d, 'diff']).decode()
            open(os.path.join(HERE, 'mutants', mid + '.patch'), 'w').write(diff)
            ent = {'patch': 'mutants/%s.patch' % mid, 'property': pid, 'origin': 'hand-written', 'what': what, 'repo_tests': tests}
            if mid in THOROUGH_ONLY:
                ent['tier'] = 'thorough'
            if mid in EQUIVALENT:
                ent['expect'] = 'equivalent'
                ent['why_equivalent'] = EQUIVALENT[mid]
            idx['mutants'].append(ent)
            print('%-28s %s tests=%s' % (mid, pid, tests))
    finally:
        subprocess.call(['git', '-C', '/repo', 'worktree', 'remove', '--force', d])
    json.dump(idx, open(idxp, 'w'), indent=1)


if __name__ == '__main__':
    main()
