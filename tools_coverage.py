#!/venv/bin/python
"""Union of the ssh_audit source lines reached by the campaigns (files written by ./check when VERIF_LINES_DIR is set);
prints, per file, the executable lines no campaign reached, as ranges with their source text.
usage: VERIF_LINES_DIR=/dev/shm/lines ./check Cxx ... ; tools_coverage.py /dev/shm/lines [file.py ...]"""
import os
import sys
sys.path.insert(0, os.path.dirname(os.path.abspath(__file__)))
from simaudit import runner  # noqa: E402


def main():
    d = sys.argv[1]
    only = set(sys.argv[2:])
    hit = {}
    for f in os.listdir(d):
        for l in open(os.path.join(d, f)).read().split('\n'):
            if l:
                fn, ln = l.rsplit(':', 1)
                hit.setdefault(fn, set()).add(int(ln))
    ex = runner.executable_lines()
    for fn in sorted(ex):
        if only and fn not in only:
            continue
        miss = sorted(ex[fn] - hit.get(fn, set()))
        print('== %s: %d/%d reached' % (fn, len(ex[fn]) - len(miss), len(ex[fn])))
        if only:
            src = open(os.path.join(runner.REPO, 'src', 'ssh_audit', fn)).read().split('\n')
            for ln in miss:
                print('   %5d  %s' % (ln, src[ln - 1][:150]))


if __name__ == '__main__':
    main()
