#!/venv/bin/python
"""Maintains MANIFEST.json from the campaign modules (run by hand after adding a campaign)."""
import importlib
import json
import os
import sys
HERE = os.path.dirname(os.path.abspath(__file__))
sys.path.insert(0, HERE)
NA = {'C17': 'static cross-references between tables as they stand in the tree: nothing executes, no peer, clock, schedule or fault; a table walk is enumeration, not simulation (its audit-visible corollary is exercised under C05)'}
NOT_BUILT = 'campaign not built yet in this round (claimed in DESIGN.md; to be added)'


def main():
    path = os.path.join(HERE, 'MANIFEST.json')
    m = json.load(open(path))
    ids = ['C%02d' % i for i in range(1, 20)]
    checks, na, served = [], [], []
    for pid in ids:
        if pid in NA:
            na.append({'property_id': pid, 'reason': NA[pid]})
            continue
        try:
            mod = importlib.import_module('simaudit.props.%s' % pid)
        except ImportError:
            na.append({'property_id': pid, 'reason': NOT_BUILT})
            continue
        served.append(pid)
        checks.append({
            'property_id': pid, 'quick_cmd': './check %s --tier quick' % pid, 'thorough_cmd': './check %s --tier thorough' % pid,
            'evidence_file': 'evidence/%s.json' % pid, 'replay_cmd_template': './check replay {path}', 'engine': 'simaudit',
            'level_claimed': {'category': mod.LEVEL, 'text': mod.CLAIM, 'design_ref': 'DESIGN.md section 3 ' + pid},
            'level_note': mod.TRUST, 'technique': mod.TECHNIQUE})
    m['checks'] = checks
    m['not_applicable'] = na
    m['engines'][0]['serves_properties'] = served
    m['notes'] = 'all checks: cwd=/verif, honour VERIF_SEED / VERIF_TIER / VERIF_JOBS / VERIF_BUDGET_S / VERIF_REPO; exit 0 held, 1 violation not listed in known_findings.json, 2 harness error (never printed as VIOLATION)'
    json.dump(m, open(path, 'w'), indent=1)
    print('checks:', served, 'not_applicable:', [x['property_id'] for x in na])


if __name__ == '__main__':
    main()
