#!/venv/bin/python
"""Determinism of selected case kinds of the campaigns (the kinds added in rounds 12 and 13: runs with the connection-rate check, slow
resolver, accept-side cases, padding on every packet, quiet packets, second-target views, audits through a one-line file): the cases
are run here with 12 workers under PYTHONHASHSEED=0 and in a fresh interpreter with 3 workers under PYTHONHASHSEED=777; event-log
digests, violation counts and harness-error flags must be identical.   usage: tools_det_kinds.py"""
import json
import os
import subprocess
import sys
HERE = os.path.dirname(os.path.abspath(__file__))
sys.path.insert(0, HERE)

SEL = {'C08': lambda i, c: c.get('rate_test') or any(t.get('dns_delay_us') for t in c['targets']),
       'C07': lambda i, c: c.get('rate_test'),
       'C09': lambda i, c: c.get('listen') or c.get('stress'),
       'C11': lambda i, c: i % 9 == 0,
       'C10': lambda i, c: c.get('profile', {}).get('pad_all'),
       'C12': lambda i, c: c.get('profile', {}).get('quiet_packets'),
       'C01': lambda i, c: c.get('quiet_packets'),
       'C04': lambda i, c: c.get('after_inverted'),
       'C02': lambda i, c: c.get('via_file')}


def digests(pid, jobs):
    from simaudit import engine
    camp = engine.load_campaign(pid)
    cases = []
    for i, c in enumerate(camp.cases(1, 'quick')):
        if SEL[pid](i, c):
            c.setdefault('id', i)
            c.setdefault('seed', 1)
            cases.append(c)
    res, _ = engine.run_cases(pid, cases, jobs)
    return [(r['id'], r['digest'], len(r.get('violations', [])), bool(r.get('harness_errors'))) for r in res]


def main():
    if len(sys.argv) > 1:
        from simaudit import runner
        runner.prepare()
        print('DIGESTS' + json.dumps({p: digests(p, int(sys.argv[1])) for p in sorted(SEL)}))
        return 0
    outs = []
    for hs, jobs in (('0', '12'), ('777', '3')):
        r = subprocess.run(['/venv/bin/python', os.path.abspath(__file__), jobs], capture_output=True, text=True, env=dict(os.environ, PYTHONHASHSEED=hs, PYTHONPATH=HERE), cwd=HERE)
        line = [ln for ln in r.stdout.split('\n') if ln.startswith('DIGESTS')]
        if not line:
            print('run failed: ' + r.stderr[-500:])
            return 2
        outs.append(json.loads(line[0][7:]))
    a, b = outs
    tot = bad = 0
    for p in a:
        d = [x[0] for x, y in zip(a[p], b[p]) if x != y]
        tot += len(a[p])
        bad += len(d) + (len(a[p]) != len(b[p]))
        print('%s: %d cases, mismatching %r, harness errors %d' % (p, len(a[p]), d[:5], sum(1 for x in a[p] if x[3])))
    print('total %d cases x 2 runs, %d mismatching' % (tot, bad))
    return 0 if bad == 0 else 2


if __name__ == '__main__':
    sys.exit(main())
